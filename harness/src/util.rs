//! Keys, records, small helpers.
use discv5::enr::{CombinedKey, NodeId};
use discv5::Enr;
use std::net::{Ipv4Addr, Ipv6Addr, SocketAddr};

/// Deterministic secp256k1 key number `i` (i < 2^16).
pub fn key(i: u16) -> CombinedKey {
    let mut b = [0x11u8; 32];
    b[0] = 0x01;
    b[30] = (i >> 8) as u8;
    b[31] = i as u8;
    CombinedKey::secp256k1_from_bytes(&mut b).expect("valid scalar")
}

pub fn v4(a: u8, b: u8, c: u8, d: u8, port: u16) -> SocketAddr {
    SocketAddr::new(Ipv4Addr::new(a, b, c, d).into(), port)
}

pub struct EnrSpec {
    pub seq: u64,
    pub ip4: Option<(Ipv4Addr, u16)>,
    pub ip6: Option<(Ipv6Addr, u16)>,
    /// extra padding bytes (value of key "pad"), to grow the record
    pub pad: usize,
}

impl Default for EnrSpec {
    fn default() -> Self {
        EnrSpec { seq: 1, ip4: None, ip6: None, pad: 0 }
    }
}

pub fn enr(key: &CombinedKey, spec: &EnrSpec) -> Enr {
    try_enr(key, spec).expect("record builds")
}

pub fn try_enr(key: &CombinedKey, spec: &EnrSpec) -> Option<Enr> {
    let mut b = Enr::builder();
    b.seq(spec.seq);
    if let Some((ip, port)) = spec.ip4 {
        b.ip4(ip);
        b.udp4(port);
    }
    if let Some((ip, port)) = spec.ip6 {
        b.ip6(ip);
        b.udp6(port);
    }
    if spec.pad > 0 {
        let bytes = vec![0xabu8; spec.pad];
        b.add_value("pad", &&bytes[..]);
    }
    b.build(key).ok()
}

pub fn enr4(key: &CombinedKey, seq: u64, addr: SocketAddr) -> Enr {
    match addr {
        SocketAddr::V4(a) => enr(key, &EnrSpec { seq, ip4: Some((*a.ip(), a.port())), ..Default::default() }),
        SocketAddr::V6(a) => enr(key, &EnrSpec { seq, ip6: Some((*a.ip(), a.port())), ..Default::default() }),
    }
}

pub fn node_id(key: &CombinedKey) -> NodeId {
    use discv5::enr::EnrKey;
    key.public().into()
}

pub fn short(id: &NodeId) -> String {
    hex::encode(&id.raw()[..4])
}

pub fn log2_distance(a: &NodeId, b: &NodeId) -> u64 {
    let (a, b) = (a.raw(), b.raw());
    for i in 0..32 {
        let x = a[i] ^ b[i];
        if x != 0 {
            return (256 - 8 * i as u64) - x.leading_zeros() as u64;
        }
    }
    0
}

/// Independent check of a handshake id-signature (discv5.1: ECDSA/secp256k1 over
/// sha256("discovery v5 identity proof" ‖ challenge-data ‖ ephemeral-pubkey ‖ destination-id)).
/// Deliberately does not call the crate's own `verify_authentication_nonce`: the oracle must not
/// inherit a defect of the function it judges.
pub fn ref_verify_id_signature(pubkey: &discv5::enr::CombinedPublicKey, ephem_pubkey: &[u8], challenge_data: &[u8], dst_id: &NodeId, sig: &[u8]) -> bool {
    use discv5::enr::k256::ecdsa::{signature::Verifier, Signature};
    let mut data = b"discovery v5 identity proof".to_vec();
    data.extend_from_slice(challenge_data);
    data.extend_from_slice(ephem_pubkey);
    data.extend_from_slice(&dst_id.raw());
    match pubkey {
        discv5::enr::CombinedPublicKey::Secp256k1(key) => match Signature::try_from(sig) {
            Ok(sig) => key.verify(&data, &sig).is_ok(),
            Err(_) => false,
        },
        _ => false,
    }
}

/// Independent statement of "contactable in the node's IP mode" (documented behaviour of
/// `IpMode`): IPv4 mode needs an IPv4 UDP endpoint; IPv6 mode a canonical IPv6 UDP endpoint (an
/// IPv4-mapped address in the IPv6 field does not count); dual stack either, IPv6 preferred.
pub fn ref_contactable(mode: &discv5::IpMode, enr: &Enr) -> Option<SocketAddr> {
    let v4 = enr.udp4_socket().map(SocketAddr::V4);
    let v6 = enr.udp6_socket().filter(|s| s.ip().to_ipv4_mapped().is_none()).map(SocketAddr::V6);
    match mode {
        discv5::IpMode::Ip4 => v4,
        discv5::IpMode::Ip6 => v6,
        discv5::IpMode::DualStack => v6.or(v4),
    }
}
