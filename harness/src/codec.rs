//! Engine `codec`: C05 (packet wire codec) and C06 (RPC message codec).
//! Bounded-exhaustive enumeration of a stated finite alphabet against independent references.
use crate::mc::{self, Report, Violation};
use crate::util;
use aes::cipher::{KeyIvInit, StreamCipher};
use discv5::enr::NodeId;
use discv5::packet::PacketKind;
use discv5::verif::{self as v, VPacket};
use discv5::Enr;
use serde_json::json;
use std::collections::HashSet;
use std::net::{IpAddr, Ipv4Addr, Ipv6Addr};
use std::panic::{catch_unwind, AssertUnwindSafe};

type Ctr128 = ctr::Ctr128BE<aes::Aes128>;

/* ------------------------------------------------------------------------------------ */
/* Reference packet codec (discv5.1 wire layout), independent of src/packet              */
/* ------------------------------------------------------------------------------------ */

fn mask(dst: &[u8; 32], iv: &[u8; 16], data: &mut [u8]) {
    let mut c = Ctr128::new(dst[..16].into(), iv[..].into());
    c.apply_keystream(data);
}

fn ref_authdata(kind: &PacketKind) -> Vec<u8> {
    match kind {
        PacketKind::Message { src_id } => src_id.raw().to_vec(),
        PacketKind::WhoAreYou { id_nonce, enr_seq } => {
            let mut a = id_nonce.to_vec();
            a.extend_from_slice(&enr_seq.to_be_bytes());
            a
        }
        PacketKind::Handshake { src_id, id_nonce_sig, ephem_pubkey, enr_record } => {
            let mut a = src_id.raw().to_vec();
            a.push(id_nonce_sig.len() as u8);
            a.push(ephem_pubkey.len() as u8);
            a.extend_from_slice(id_nonce_sig);
            a.extend_from_slice(ephem_pubkey);
            if let Some(r) = enr_record {
                a.extend_from_slice(&alloy_rlp::encode(r));
            }
            a
        }
    }
}

fn flag(kind: &PacketKind) -> u8 {
    match kind {
        PacketKind::Message { .. } => 0,
        PacketKind::WhoAreYou { .. } => 1,
        PacketKind::Handshake { .. } => 2,
    }
}

/// (datagram, unmasked IV‖header) per the specification.
fn ref_encode(p: &VPacket, dst: &NodeId) -> (Vec<u8>, Vec<u8>) {
    ref_encode_id(p, dst, b"discv5", [0, 1])
}

/// Same layout under a configured protocol identity (`ConfigBuilder::protocol_identity`).
fn ref_encode_id(p: &VPacket, dst: &NodeId, pid: &[u8; 6], ver: [u8; 2]) -> (Vec<u8>, Vec<u8>) {
    let auth = ref_authdata(&p.kind);
    let mut header = pid.to_vec();
    header.extend_from_slice(&ver);
    header.push(flag(&p.kind));
    header.extend_from_slice(&p.message_nonce);
    header.extend_from_slice(&(auth.len() as u16).to_be_bytes());
    header.extend_from_slice(&auth);
    let iv = p.iv.to_be_bytes();
    let mut aad = iv.to_vec();
    aad.extend_from_slice(&header);
    mask(&dst.raw(), &iv, &mut header);
    let mut out = iv.to_vec();
    out.extend_from_slice(&header);
    out.extend_from_slice(&p.message);
    (out, aad)
}

/// Reference decoder: `Ok((packet, authenticated data))` or the name of the violated rule.
fn ref_decode(local: &NodeId, data: &[u8]) -> Result<(VPacket, Vec<u8>), &'static str> {
    if data.len() > 1280 {
        return Err("too large");
    }
    if data.len() < 63 {
        return Err("too small");
    }
    let mut iv = [0u8; 16];
    iv.copy_from_slice(&data[..16]);
    // one keystream over static header ‖ authdata
    let mut rest = data[16..].to_vec();
    let mut c = Ctr128::new(local.raw()[..16].into(), iv[..].into());
    c.apply_keystream(&mut rest[..23]);
    if &rest[..6] != b"discv5" {
        return Err("protocol id");
    }
    if rest[6..8] != [0, 1] {
        return Err("version");
    }
    let fl = rest[8];
    let mut nonce = [0u8; 12];
    nonce.copy_from_slice(&rest[9..21]);
    let asz = u16::from_be_bytes([rest[21], rest[22]]) as usize;
    if 23 + asz > rest.len() {
        return Err("auth size beyond datagram");
    }
    c.apply_keystream(&mut rest[23..23 + asz]);
    let auth = rest[23..23 + asz].to_vec();
    let body = rest[23 + asz..].to_vec();
    let kind = match fl {
        0 => {
            if asz != 32 {
                return Err("message auth size");
            }
            PacketKind::Message { src_id: NodeId::parse(&auth).map_err(|_| "node id")? }
        }
        1 => {
            if asz != 24 {
                return Err("whoareyou auth size");
            }
            if !body.is_empty() {
                return Err("whoareyou with body");
            }
            let mut id_nonce = [0u8; 16];
            id_nonce.copy_from_slice(&auth[..16]);
            let mut s = [0u8; 8];
            s.copy_from_slice(&auth[16..]);
            PacketKind::WhoAreYou { id_nonce, enr_seq: u64::from_be_bytes(s) }
        }
        2 => {
            if asz < 34 {
                return Err("handshake auth size");
            }
            let (ss, ks) = (auth[32] as usize, auth[33] as usize);
            if asz < 34 + ss + ks {
                return Err("handshake sizes");
            }
            let rec = &auth[34 + ss + ks..];
            let enr_record = if rec.is_empty() {
                None
            } else {
                use alloy_rlp::Decodable;
                Some(Enr::decode(&mut &rec[..]).map_err(|_| "record")?)
            };
            PacketKind::Handshake {
                src_id: NodeId::parse(&auth[..32]).map_err(|_| "node id")?,
                id_nonce_sig: auth[34..34 + ss].to_vec(),
                ephem_pubkey: auth[34 + ss..34 + ss + ks].to_vec(),
                enr_record,
            }
        }
        _ => return Err("unknown kind"),
    };
    let mut aad = iv.to_vec();
    aad.extend_from_slice(&rest[..23 + asz]);
    Ok((
        VPacket { iv: u128::from_be_bytes(iv), message_nonce: nonce, kind, message: body },
        aad,
    ))
}

/* ------------------------------------------------------------------------------------ */
/* C05                                                                                   */
/* ------------------------------------------------------------------------------------ */

struct C05 {
    decodes: u64,
    accepted: u64,
    rejected_by_rule: std::collections::BTreeMap<&'static str, u64>,
    distinct: HashSet<u128>,
    problems: Vec<Violation>,
}

impl C05 {
    fn problem(&mut self, clause: &str, key: &str, detail: String, local: &NodeId, data: &[u8]) {
        if self.problems.len() < 20 {
            self.problems.push(Violation {
                clause: clause.into(),
                key: key.into(),
                detail,
                replay: json!({"engine":"codec","check":"C05","local_id":hex::encode(local.raw()),"datagram":hex::encode(data)}),
            });
        }
    }

    /// Differential check of one input against the reference decoder.
    fn check(&mut self, local: &NodeId, data: &[u8], class: &str) {
        self.decodes += 1;
        let expect = ref_decode(local, data);
        let got = catch_unwind(AssertUnwindSafe(|| VPacket::decode(local, data)));
        let got = match got {
            Ok(g) => g,
            Err(_) => {
                self.problem("decode never panics", &format!("panic:{class}"), format!("decode panicked on {} bytes", data.len()), local, data);
                return;
            }
        };
        match (&expect, &got) {
            (Err(rule), Ok(_)) => {
                self.problem("rejects malformed datagrams", &format!("accepted:{rule}:{class}"), format!("reference rejects ({rule}) but decode accepted"), local, data);
            }
            (Ok(_), Err(e)) => {
                self.problem("decodes well-formed datagrams", &format!("rejected-valid:{class}"), format!("reference accepts but decode returned {e}"), local, data);
            }
            (Ok((p, aad)), Ok((q, aad2))) => {
                self.accepted += 1;
                if p != q || aad != aad2 {
                    self.problem("decode returns the same packet and authenticated bytes", &format!("mismatch:{class}"), format!("decoded packet/aad differ from reference: {:?} vs {:?}", p, q), local, data);
                }
                self.distinct.insert(mc::fp_of(&(flag(&q.kind), aad2.len(), q.message.len(), class)));
            }
            (Err(rule), Err(_)) => {
                *self.rejected_by_rule.entry(rule).or_insert(0) += 1;
                self.distinct.insert(mc::fp_of(&(*rule, class)));
            }
        }
    }
}

fn ids() -> Vec<NodeId> {
    let a = util::node_id(&util::key(1));
    let mut b_raw = a.raw();
    b_raw[31] ^= 0xff; // shares the first 16 bytes (same masking key)
    b_raw[16] ^= 0x01;
    let b = NodeId::new(&b_raw);
    let c = util::node_id(&util::key(2));
    vec![a, b, c]
}

fn records() -> Vec<Option<Enr>> {
    let k = util::key(7);
    let minimal = util::enr(&k, &util::EnrSpec { seq: 1, ..Default::default() });
    let mut pad = 0;
    // largest record that still fits the 300 byte limit
    let mut big = None;
    while pad < 300 {
        let r = util::try_enr(&k, &util::EnrSpec { seq: u64::MAX, ip4: Some((Ipv4Addr::new(10, 1, 2, 3), 30303)), ip6: Some((Ipv6Addr::LOCALHOST, 9)), pad });
        match r {
            Some(r) if alloy_rlp::encode(&r).len() <= 300 => big = Some(r),
            _ => break,
        }
        pad += 1;
    }
    vec![None, Some(minimal), big]
}

/// Valid signed records whose encoding is exactly `len` bytes (None if no padding hits it): a
/// record from the builder (which stops a few bytes short of the 300-byte limit), grown by
/// re-signing with one more key/value pair.
fn record_of_len(keyno: u16, len: usize) -> Option<Enr> {
    let k = util::key(keyno);
    for base_pad in [100usize, 101, 60] {
    let base = util::try_enr(&k, &util::EnrSpec { seq: 1, ip4: Some((Ipv4Addr::new(10, 1, 2, 3), 30303)), ip6: None, pad: base_pad })?;
    for extra in 0..200usize {
        let mut r = base.clone();
        let bytes = vec![0xcdu8; extra];
        if let Err(e) = r.insert("q", &&bytes[..], &k) {
            if std::env::var("VERIF_DEBUG").is_ok() {
                eprintln!("insert failed at extra {extra}: {:?}", e);
            }
            break;
        }
        let l = alloy_rlp::encode(&r).len();
        if std::env::var("VERIF_DEBUG").is_ok() {
            eprintln!("extra {extra} -> {l}");
        }
        if l == len {
            return Some(r);
        }
        if l > len {
            break;
        }
    }
    }
    None
}

pub fn run_c05() {
    let mut rep = Report::new("C05", "exploration");
    let thorough = rep.thorough();
    let ids = ids();
    let recs = records();
    let big_len = recs[2].as_ref().map(|r| alloy_rlp::encode(r).len()).unwrap_or(0);
    let mut st = C05 { decodes: 0, accepted: 0, rejected_by_rule: Default::default(), distinct: Default::default(), problems: vec![] };
    // caught panics are verdicts here; keep the location-recording hook, just silence its printing
    mc::quiet_panics(true);

    /* ---- part 1: round trip over the packet grid ---- */
    // IVs avoid a carry out of the low 64 counter bits inside the header (the width of the
    // CTR counter is not pinned by the property; see DESIGN.md §C05).
    let ivs: Vec<u128> = vec![0, 1, 0xffff_ffff, (u128::MAX << 64) | 0x0123_4567_89ab_cdef, 0x0f1e2d3c4b5a69788796a5b4c3d2e1f0];
    let nonces: Vec<[u8; 12]> = vec![[0; 12], [0xff; 12], [1, 2, 3, 4, 5, 6, 7, 8, 9, 10, 11, 12]];
    let sizes: Vec<usize> = if thorough { vec![0, 1, 32, 33, 63, 64, 65, 255] } else { vec![0, 1, 33, 64, 255] };
    let bodies: Vec<usize> = vec![0, 1, 16, 44, 300];
    let mut packets: Vec<VPacket> = vec![];
    for iv in &ivs {
        for n in &nonces {
            for src in &ids {
                for b in &bodies {
                    packets.push(VPacket { iv: *iv, message_nonce: *n, kind: PacketKind::Message { src_id: *src }, message: vec![0x5a; *b] });
                }
            }
            for seq in [0u64, 1, u64::MAX] {
                let mut idn = [0u8; 16];
                idn[0] = seq as u8;
                idn[15] = 0xee;
                packets.push(VPacket { iv: *iv, message_nonce: *n, kind: PacketKind::WhoAreYou { id_nonce: idn, enr_seq: seq }, message: vec![] });
            }
        }
    }
    // handshake grid: sig-size × key-size × record × body (one iv / nonce each, rotated)
    let mut rot = 0usize;
    for ss in &sizes {
        for ks in &sizes {
            for rec in &recs {
                for b in [0usize, 44] {
                    let alen = 34 + ss + ks + rec.as_ref().map(|r| alloy_rlp::encode(r).len()).unwrap_or(0);
                    if 16 + 23 + alen + b > 1280 {
                        continue;
                    }
                    rot += 1;
                    packets.push(VPacket {
                        iv: ivs[rot % ivs.len()],
                        message_nonce: nonces[rot % nonces.len()],
                        kind: PacketKind::Handshake { src_id: ids[rot % ids.len()], id_nonce_sig: vec![0xa1; *ss], ephem_pubkey: vec![0xb2; *ks], enr_record: rec.clone() },
                        message: vec![0x77; b],
                    });
                }
            }
        }
    }
    let mut roundtrips = 0u64;
    for p in &packets {
        for dst in &ids {
            let (expected, aad) = ref_encode(p, dst);
            let got = match catch_unwind(AssertUnwindSafe(|| p.clone().encode(dst))) {
                Ok(g) => g,
                Err(_) => {
                    st.problem("encode never panics", &format!("panic:encode:{}", flag(&p.kind)), format!("encode panicked for {:?}", p), dst, &expected);
                    continue;
                }
            };
            roundtrips += 1;
            if got != expected {
                st.problem("encoded datagram equals the discv5.1 layout", &format!("layout:{}", flag(&p.kind)), format!("encode differs from reference for {:?}", p), dst, &got);
                continue;
            }
            if p.authenticated_data() != aad {
                st.problem("authenticated bytes are IV ‖ unmasked header", &format!("aad:{}", flag(&p.kind)), "authenticated_data() differs".into(), dst, &got);
            }
            if expected.len() <= 1280 && expected.len() >= 63 {
                let decoded = match catch_unwind(AssertUnwindSafe(|| VPacket::decode(dst, &expected))) {
                    Ok(d) => d,
                    Err(_) => {
                        st.problem("decode never panics", &format!("panic:roundtrip:{}", flag(&p.kind)), format!("decode panicked on the encoding of {:?}", p), dst, &expected);
                        continue;
                    }
                };
                match decoded {
                    Ok((q, aad2)) => {
                        if &q != p || aad2 != aad {
                            st.problem("decode(encode(p)) == p", &format!("roundtrip:{}", flag(&p.kind)), format!("{:?} != {:?}", q, p), dst, &expected);
                        }
                    }
                    Err(e) => st.problem("decode(encode(p)) == p", &format!("roundtrip-err:{}", flag(&p.kind)), format!("decode failed: {e}"), dst, &expected),
                }
                // every other local id: accepted iff it shares the masking key
                for other in &ids {
                    if other != dst {
                        st.check(other, &expected, "foreign-id");
                    }
                }
            }
        }
    }
    rep.set("roundtrips", roundtrips);
    rep.set("roundtrip_packets", packets.len() as u64);

    /* ---- part 1c: IVs whose low 64 bits carry inside the header ---- */
    // The width of the masking counter is not pinned by the property (64-bit big-endian here, 128 bit
    // in other implementations), so the reference layout is not compared for these IVs — but
    // whatever width is used, decoding what was encoded must give the packet back.
    let carry_ivs: Vec<u128> = vec![u64::MAX as u128, (7u128 << 64) | (u64::MAX as u128 - 1), u128::MAX, (1u128 << 64) - 3, (0xabcdu128 << 64) | (u64::MAX as u128 - 2)];
    let mut carry_roundtrips = 0u64;
    for iv in &carry_ivs {
        let samples = vec![
            VPacket { iv: *iv, message_nonce: nonces[2], kind: PacketKind::Message { src_id: ids[1] }, message: vec![0x5a; 44] },
            VPacket { iv: *iv, message_nonce: nonces[1], kind: PacketKind::WhoAreYou { id_nonce: [9; 16], enr_seq: 3 }, message: vec![] },
            VPacket { iv: *iv, message_nonce: nonces[0], kind: PacketKind::Handshake { src_id: ids[0], id_nonce_sig: vec![0xa1; 64], ephem_pubkey: vec![0xb2; 33], enr_record: recs[1].clone() }, message: vec![0x77; 44] },
        ];
        for p in &samples {
            for dst in &ids {
                carry_roundtrips += 1;
                let r = catch_unwind(AssertUnwindSafe(|| {
                    let bytes = p.clone().encode(dst);
                    let d = VPacket::decode(dst, &bytes);
                    (bytes, d)
                }));
                match r {
                    Err(_) => st.problem("encode / decode never panic", &format!("panic:carry-iv:{}", flag(&p.kind)), format!("panic on {:?}", p), dst, &[]),
                    Ok((bytes, Ok((q, aad)))) => {
                        if &q != p || aad != p.authenticated_data() {
                            st.problem("decode(encode(p)) == p", &format!("roundtrip-carry-iv:{}", flag(&p.kind)), format!("{:?} != {:?}", q, p), dst, &bytes);
                        }
                    }
                    Ok((bytes, Err(e))) => st.problem("decode(encode(p)) == p", &format!("roundtrip-carry-iv-err:{}", flag(&p.kind)), format!("decode of the node's own encoding failed: {e} (iv {:032x})", iv), dst, &bytes),
                }
            }
        }
    }
    rep.set("carry_iv_roundtrips", carry_roundtrips);

    /* ---- part 1b: the same under configured protocol identities ---- */
    // A node configured with its own protocol id / version writes and demands exactly that pair;
    // every other pair (including the default) is "foreign".
    let idents: Vec<([u8; 6], [u8; 2])> = vec![(*b"discv5", [0, 1]), (*b"discv5", [0, 2]), (*b"discv5", [1, 1]), (*b"custom", [0, 1]), (*b"d1scv5", [0x12, 0x34])];
    let step = if thorough { 1 } else { 7 };
    let mut ident_roundtrips = 0u64;
    for (pi, p) in packets.iter().enumerate() {
        if pi % step != 0 {
            continue;
        }
        let dst = &ids[pi % ids.len()];
        for (a, (pid, ver)) in idents.iter().enumerate() {
            let identity = discv5::ProtocolIdentity { protocol_id: *pid, protocol_version: *ver };
            let (expected, aad) = ref_encode_id(p, dst, pid, *ver);
            let got = match catch_unwind(AssertUnwindSafe(|| p.clone().encode_with_identity(dst, identity))) {
                Ok(g) => g,
                Err(_) => {
                    st.problem("encode never panics", &format!("panic:encode-identity:{}", flag(&p.kind)), format!("encode panicked for {:?}", p), dst, &expected);
                    continue;
                }
            };
            ident_roundtrips += 1;
            if got != expected {
                st.problem("encoded datagram carries the configured protocol id and version", &format!("layout-identity:{}:{a}", flag(&p.kind)), format!("encode under identity {:?}/{:?} differs from the reference for {:?}", pid, ver, p), dst, &got);
                continue;
            }
            if expected.len() > 1280 || expected.len() < 63 {
                continue;
            }
            for (b, (pid2, ver2)) in idents.iter().enumerate() {
                let identity2 = discv5::ProtocolIdentity { protocol_id: *pid2, protocol_version: *ver2 };
                st.decodes += 1;
                let r = match catch_unwind(AssertUnwindSafe(|| VPacket::decode_with_identity(dst, identity2, &expected))) {
                    Ok(r) => r,
                    Err(_) => {
                        st.problem("decode never panics", &format!("panic:identity:{}", flag(&p.kind)), format!("decode panicked on the encoding of {:?}", p), dst, &expected);
                        continue;
                    }
                };
                match (a == b, r) {
                    (true, Ok((q, aad2))) => {
                        if &q != p || aad2 != aad {
                            st.problem("decode(encode(p)) == p", &format!("roundtrip-identity:{}", flag(&p.kind)), format!("{:?} != {:?}", q, p), dst, &expected);
                        }
                    }
                    (true, Err(e)) => st.problem("decode(encode(p)) == p", &format!("roundtrip-identity-err:{}", flag(&p.kind)), format!("decode under the encoding identity failed: {e}"), dst, &expected),
                    (false, Ok(_)) => st.problem("a foreign protocol id or version is rejected", &format!("foreign-identity:{a}->{b}"), format!("datagram written under {:?}/{:?} accepted by a node configured with {:?}/{:?}", pid, ver, pid2, ver2), dst, &expected),
                    (false, Err(_)) => {
                        *st.rejected_by_rule.entry("foreign identity").or_insert(0) += 1;
                    }
                }
            }
        }
    }
    rep.set("identity_roundtrips", ident_roundtrips);

    /* ---- part 2: totality / strictness, differential against the reference decoder ---- */
    let local = ids[0];
    let shapes: Vec<(&str, VPacket)> = vec![
        ("msg0", VPacket { iv: 7, message_nonce: [9; 12], kind: PacketKind::Message { src_id: ids[2] }, message: vec![] }),
        ("msg44", VPacket { iv: 8, message_nonce: [9; 12], kind: PacketKind::Message { src_id: ids[2] }, message: vec![3; 44] }),
        ("msg1000", VPacket { iv: 9, message_nonce: [9; 12], kind: PacketKind::Message { src_id: ids[2] }, message: vec![3; 1000] }),
        ("way", VPacket { iv: 10, message_nonce: [9; 12], kind: PacketKind::WhoAreYou { id_nonce: [4; 16], enr_seq: 5 }, message: vec![] }),
        ("hs", VPacket { iv: 11, message_nonce: [9; 12], kind: PacketKind::Handshake { src_id: ids[2], id_nonce_sig: vec![1; 64], ephem_pubkey: vec![2; 33], enr_record: None }, message: vec![3; 44] }),
        ("hs-rec", VPacket { iv: 12, message_nonce: [9; 12], kind: PacketKind::Handshake { src_id: ids[2], id_nonce_sig: vec![1; 64], ephem_pubkey: vec![2; 33], enr_record: recs[1].clone() }, message: vec![3; 44] }),
        ("hs-bigrec", VPacket { iv: 13, message_nonce: [9; 12], kind: PacketKind::Handshake { src_id: ids[2], id_nonce_sig: vec![1; 64], ephem_pubkey: vec![2; 33], enr_record: recs[2].clone() }, message: vec![3; 44] }),
    ];
    for (name, p) in &shapes {
        let (dg, aad) = ref_encode(p, &local);
        let hdr_len = aad.len() - 16;
        // (a) every prefix
        for l in 0..=dg.len() {
            st.check(&local, &dg[..l], &format!("prefix:{name}"));
        }
        // (b) tails
        for extra in [1usize, 16, 1280usize.saturating_sub(dg.len()), 1281usize.saturating_sub(dg.len()), 1400usize.saturating_sub(dg.len())] {
            let mut d = dg.clone();
            d.extend(std::iter::repeat(0xcc).take(extra));
            st.check(&local, &d, &format!("tail:{name}"));
        }
        // (c) every value of every unmasked header byte (static header + auth head), re-masked
        let positions = hdr_len.min(23 + 34);
        for pos in 0..positions {
            for val in 0..=255u8 {
                let mut h = aad[16..].to_vec();
                if h[pos] == val {
                    continue;
                }
                h[pos] = val;
                let mut iv = [0u8; 16];
                iv.copy_from_slice(&aad[..16]);
                mask(&local.raw(), &iv, &mut h);
                let mut d = iv.to_vec();
                d.extend_from_slice(&h);
                d.extend_from_slice(&p.message);
                st.check(&local, &d, &format!("hdr{pos}:{name}"));
            }
        }
        // (d) masked-domain bit flips over the whole datagram
        let bits: &[u8] = if thorough { &[0, 1, 2, 3, 4, 5, 6, 7] } else { &[0, 7] };
        for pos in 0..dg.len().min(if thorough { dg.len() } else { 200 }) {
            for b in bits {
                let mut d = dg.clone();
                d[pos] ^= 1 << b;
                st.check(&local, &d, &format!("flip:{name}"));
            }
        }
    }
    // (e) grid kind × auth-size × datagram length, unmasked-domain construction
    let lens: Vec<usize> = if thorough { vec![63, 64, 100, 300, 1279, 1280] } else { vec![63, 100, 1280] };
    let kinds: Vec<u8> = (0..=255u8).collect();
    for total in &lens {
        for k in &kinds {
            let authsizes: Vec<usize> = if *k <= 3 || thorough {
                (0..=1400usize).chain([65535usize]).collect()
            } else {
                (0..=70usize).chain([1241, 1280, 65535]).collect()
            };
            for asz in authsizes {
                let mut h = b"discv5".to_vec();
                h.extend_from_slice(&[0, 1]);
                h.push(*k);
                h.extend_from_slice(&[6; 12]);
                h.extend_from_slice(&(asz as u16).to_be_bytes());
                let mut rest = vec![0x42u8; total - 16 - 23];
                // make a plausible handshake head so that kind 2 is not always rejected early
                if rest.len() >= 34 {
                    rest[32] = 3;
                    rest[33] = 2;
                }
                h.extend_from_slice(&rest);
                let iv = [0x31u8; 16];
                mask(&local.raw(), &iv, &mut h);
                let mut d = iv.to_vec();
                d.extend_from_slice(&h);
                st.check(&local, &d, &format!("grid:{k}"));
            }
        }
    }
    // (f) handshake sig-size × key-size 0..255² in a datagram with 273 bytes of auth-data
    for ss in 0..=255usize {
        for ks in 0..=255usize {
            if !thorough && (ss % 3 != 0 && ss < 250 && ss != 64) && (ks % 3 != 0 && ks < 250 && ks != 33) {
                continue;
            }
            let asz = 34 + 239;
            let mut h = b"discv5".to_vec();
            h.extend_from_slice(&[0, 1, 2]);
            h.extend_from_slice(&[6; 12]);
            h.extend_from_slice(&(asz as u16).to_be_bytes());
            let mut auth = vec![0x55u8; asz];
            auth[32] = ss as u8;
            auth[33] = ks as u8;
            h.extend_from_slice(&auth);
            let iv = [0x32u8; 16];
            mask(&local.raw(), &iv, &mut h);
            let mut d = iv.to_vec();
            d.extend_from_slice(&h);
            d.extend_from_slice(&[1, 2, 3]);
            st.check(&local, &d, "hs-sizes");
        }
    }
    // (g) every length 0..1400 × three fills, raw
    for l in 0..=1400usize {
        for fill in 0..3 {
            let d: Vec<u8> = (0..l).map(|i| match fill { 0 => 0u8, 1 => 0xff, _ => i as u8 }).collect();
            st.check(&local, &d, "fill");
        }
    }
    // (h) foreign protocol id / version at every length class
    for (pid, ver) in [(*b"discv4", [0u8, 1]), (*b"discv5", [0, 2]), (*b"discv5", [1, 1]), (*b"DISCV5", [0, 1])] {
        let mut h = pid.to_vec();
        h.extend_from_slice(&ver);
        h.push(0);
        h.extend_from_slice(&[6; 12]);
        h.extend_from_slice(&32u16.to_be_bytes());
        h.extend_from_slice(&ids[2].raw());
        let iv = [0x33u8; 16];
        mask(&local.raw(), &iv, &mut h);
        let mut d = iv.to_vec();
        d.extend_from_slice(&h);
        d.extend_from_slice(&[9; 20]);
        st.check(&local, &d, "proto");
    }
    mc::quiet_panics(false);

    let evals = st.decodes + roundtrips;
    rep.set("evaluations", evals);
    rep.set("decodes_differential", st.decodes);
    rep.set("accepted", st.accepted);
    rep.set("rejected_by_rule", json!(st.rejected_by_rule));
    rep.set("distinct_nontrivial", st.distinct.len() as u64);
    rep.set("rule", "finite alphabet enumerated completely: (1) packet grid kind × IV × nonce × ids × enr-seq × sig/key sizes × record × body, encode vs independent reference encoder, decode∘encode = id, every other local id; (2) per datagram shape every prefix, tails, every value of each of the first 57 unmasked header bytes (re-masked), masked-domain bit flips; grid kind 0..255 × auth-size; handshake sig×key sizes; all lengths 0..1400 × 3 fills; foreign protocol id/version. Each input is decided by an independent reference decoder (differential). distinct = distinct (outcome class, input class) pairs");
    rep.set("exhaustive", true);
    rep.set("max_record_bytes", big_len as u64);
    rep.sample(json!({"class":"roundtrip","packet":format!("{:?}", packets[packets.len()/2])}));
    rep.sample(json!({"class":"grid","example":"kind=2 auth-size=34 total=63 (unmasked-domain construction, re-masked for local id)"}));
    rep.sample(json!({"class":"prefix","example":"first 62 bytes of a valid WHOAREYOU"}));
    rep.assume("the width of the AES-CTR counter (64 vs 128 bit) is not decided: IVs whose low 64 bits carry inside the header are outside the alphabet");
    rep.assume("record validity inside handshake auth-data is delegated to the enr crate (executed, not verified); bytes trailing a valid record are not required to be rejected");
    for p in std::mem::take(&mut st.problems) {
        rep.violation(p);
    }
    if st.accepted == 0 || st.rejected_by_rule.len() < 8 {
        rep.vacuous("C05 vacuous: too few outcome classes reached");
    }
    rep.finish();
}

/* ------------------------------------------------------------------------------------ */
/* Reference RLP writer and C06                                                          */
/* ------------------------------------------------------------------------------------ */

fn rlp_bytes(b: &[u8]) -> Vec<u8> {
    if b.len() == 1 && b[0] < 0x80 {
        return b.to_vec();
    }
    let mut out = rlp_len(0x80, b.len());
    out.extend_from_slice(b);
    out
}
fn rlp_len(base: u8, len: usize) -> Vec<u8> {
    if len < 56 {
        vec![base + len as u8]
    } else {
        let be: Vec<u8> = len.to_be_bytes().iter().copied().skip_while(|x| *x == 0).collect();
        let mut v = vec![base + 55 + be.len() as u8];
        v.extend_from_slice(&be);
        v
    }
}
fn rlp_uint(x: u64) -> Vec<u8> {
    let be: Vec<u8> = x.to_be_bytes().iter().copied().skip_while(|b| *b == 0).collect();
    rlp_bytes(&be)
}
fn rlp_list(items: &[Vec<u8>]) -> Vec<u8> {
    let payload: Vec<u8> = items.concat();
    let mut out = rlp_len(0xc0, payload.len());
    out.extend_from_slice(&payload);
    out
}

fn ref_rpc_encode(m: &v::Message) -> Vec<u8> {
    let (ty, list) = match m {
        v::Message::Request(r) => {
            let id = rlp_bytes(&r.id.0);
            match &r.body {
                v::RequestBody::Ping { enr_seq } => (1u8, vec![id, rlp_uint(*enr_seq)]),
                v::RequestBody::FindNode { distances } => {
                    let ds: Vec<Vec<u8>> = distances.iter().map(|d| rlp_uint(*d)).collect();
                    (3, vec![id, rlp_list(&ds)])
                }
                v::RequestBody::Talk { protocol, request } => (5, vec![id, rlp_bytes(protocol), rlp_bytes(request)]),
            }
        }
        v::Message::Response(r) => {
            let id = rlp_bytes(&r.id.0);
            match &r.body {
                v::ResponseBody::Pong { enr_seq, ip, port } => {
                    let ipb = match ip {
                        IpAddr::V4(a) => a.octets().to_vec(),
                        IpAddr::V6(a) => a.octets().to_vec(),
                    };
                    (2u8, vec![id, rlp_uint(*enr_seq), rlp_bytes(&ipb), rlp_uint(port.get() as u64)])
                }
                v::ResponseBody::Nodes { total, nodes } => {
                    let recs: Vec<Vec<u8>> = nodes.iter().map(|n| alloy_rlp::encode(n)).collect();
                    (4, vec![id, rlp_uint(*total), rlp_list(&recs)])
                }
                v::ResponseBody::Talk { response } => (6, vec![id, rlp_bytes(response)]),
            }
        }
    };
    let mut out = vec![ty];
    out.extend_from_slice(&rlp_list(&list));
    out
}

struct C06 {
    decodes: u64,
    accepted: u64,
    rejected: u64,
    distinct: HashSet<u128>,
    problems: Vec<Violation>,
}

impl C06 {
    fn problem(&mut self, clause: &str, key: &str, detail: String, data: &[u8]) {
        if self.problems.len() < 20 {
            self.problems.push(Violation {
                clause: clause.into(),
                key: key.into(),
                detail,
                replay: json!({"engine":"codec","check":"C06","bytes":hex::encode(data)}),
            });
        }
    }

    fn decode(&mut self, data: &[u8], class: &str) -> Option<Result<v::Message, String>> {
        self.decodes += 1;
        match catch_unwind(AssertUnwindSafe(|| v::Message::decode(data))) {
            Ok(r) => Some(r.map_err(|e| format!("{e:?}"))),
            Err(_) => {
                self.problem("decode never panics", &format!("panic:{class}"), format!("decode panicked on {}", hex::encode(data)), data);
                None
            }
        }
    }

    /// `data` must be rejected.
    fn must_reject(&mut self, data: &[u8], clause: &str, class: &str) {
        if let Some(r) = self.decode(data, class) {
            match r {
                Ok(m) => self.problem(clause, &format!("accepted:{class}"), format!("accepted as {:?}", m), data),
                Err(_) => {
                    self.rejected += 1;
                    self.distinct.insert(mc::fp_of(&("rej", class)));
                }
            }
        }
    }

    /// Consistency: whatever is accepted must be the (reference) encoding of what it decodes to.
    fn consistent(&mut self, data: &[u8], class: &str) {
        if let Some(r) = self.decode(data, class) {
            match r {
                Ok(m) => {
                    self.accepted += 1;
                    let re = ref_rpc_encode(&m);
                    if re != data && !pong_alias(&m, data) {
                        self.problem("accepted bytes are exactly the encoding of the decoded message (no trailing, missing or non-canonical bytes)", &format!("inconsistent:{class}"), format!("decodes to {:?} whose encoding is {}", m, hex::encode(&re)), data);
                    }
                    self.distinct.insert(mc::fp_of(&("acc", class, data.first().copied())));
                }
                Err(_) => {
                    self.rejected += 1;
                    self.distinct.insert(mc::fp_of(&("rej", class, data.first().copied())));
                }
            }
        }
    }
}

/// Documented exception: IPv4-mapped / IPv4-compatible IPv6 addresses in a PONG decode to IPv4.
fn pong_alias(m: &v::Message, data: &[u8]) -> bool {
    if let v::Message::Response(v::Response { id, body: v::ResponseBody::Pong { enr_seq, ip: IpAddr::V4(a), port } }) = m {
        for v6 in [a.to_ipv6_mapped(), a.to_ipv6_compatible()] {
            if v6.is_loopback() {
                continue;
            }
            let alt = v::Message::Response(v::Response { id: id.clone(), body: v::ResponseBody::Pong { enr_seq: *enr_seq, ip: IpAddr::V6(v6), port: *port } });
            if ref_rpc_encode(&alt) == data {
                return true;
            }
        }
    }
    false
}

fn rpc_messages(thorough: bool) -> Vec<v::Message> {
    let ids: Vec<Vec<u8>> = (0..=8).map(|l| (0..l).map(|i| (i as u8) + 1).collect()).chain([vec![0u8], vec![0x7f], vec![0x80], vec![0, 0]]).collect();
    let ints: Vec<u64> = vec![0, 1, 127, 128, 255, 256, 1 << 32, u64::MAX];
    let k = util::key(9);
    let recs: Vec<Enr> = vec![
        util::enr(&k, &util::EnrSpec { seq: 1, ..Default::default() }),
        util::enr(&util::key(10), &util::EnrSpec { seq: 2, ip4: Some((Ipv4Addr::new(1, 2, 3, 4), 5)), ..Default::default() }),
        util::enr(&util::key(11), &util::EnrSpec { seq: 3, ip6: Some((Ipv6Addr::new(0x2001, 0xdb8, 0, 0, 0, 0, 0, 1), 7)), pad: 120, ..Default::default() }),
        records()[2].clone().unwrap(),
    ];
    // the size boundary exactly: records of 298, 299 and 300 bytes (300 is the maximum a record may have)
    let boundary: Vec<Enr> = [298usize, 299, 300].iter().filter_map(|l| record_of_len(12, *l)).collect();
    if boundary.len() != 3 {
        mc::machinery("could not build records of exactly 298 / 299 / 300 bytes");
    }
    let payloads: Vec<Vec<u8>> = vec![vec![], vec![0x05], vec![0x80], vec![0xff], vec![7; 55], vec![7; 56], vec![7; 1000]];
    let dist_alpha: Vec<u64> = vec![0, 1, 127, 128, 255, 256];
    let mut out = vec![];
    let rid = |b: &Vec<u8>| v::RequestId(b.clone());
    for id in &ids {
        for x in &ints {
            out.push(v::Message::Request(v::Request { id: rid(id), body: v::RequestBody::Ping { enr_seq: *x } }));
        }
    }
    // distance lists of length 0..=L over the alphabet
    let maxlen = if thorough { 4 } else { 3 };
    let mut lists: Vec<Vec<u64>> = vec![vec![]];
    let mut frontier: Vec<Vec<u64>> = vec![vec![]];
    for _ in 0..maxlen {
        let mut next = vec![];
        for l in &frontier {
            for d in &dist_alpha {
                let mut n = l.clone();
                n.push(*d);
                next.push(n);
            }
        }
        lists.extend(next.iter().cloned());
        frontier = next;
    }
    lists.push(vec![256, 255, 254, 253, 252, 251]);
    for (i, l) in lists.iter().enumerate() {
        out.push(v::Message::Request(v::Request { id: rid(&ids[i % 9]), body: v::RequestBody::FindNode { distances: l.clone() } }));
    }
    let ips: Vec<IpAddr> = vec![
        Ipv4Addr::new(0, 0, 0, 0).into(),
        Ipv4Addr::new(127, 0, 0, 1).into(),
        Ipv4Addr::new(255, 255, 255, 255).into(),
        Ipv6Addr::LOCALHOST.into(),
        Ipv6Addr::new(0x2001, 0xdb8, 0, 0, 0, 0, 0, 1).into(),
        Ipv6Addr::new(0xffff, 0xffff, 0xffff, 0xffff, 0xffff, 0xffff, 0xffff, 0xffff).into(),
        // spellings of an IPv4 address inside IPv6: written as the 16 bytes they are
        Ipv4Addr::new(10, 0, 0, 7).to_ipv6_mapped().into(),
        Ipv4Addr::new(10, 0, 0, 7).to_ipv6_compatible().into(),
    ];
    for id in &ids {
        for ip in &ips {
            for port in [1u16, 80, 65535] {
                for seq in [0u64, u64::MAX] {
                    out.push(v::Message::Response(v::Response { id: rid(id), body: v::ResponseBody::Pong { enr_seq: seq, ip: *ip, port: port.try_into().unwrap() } }));
                }
            }
        }
    }
    // NODES with 0..4 records, every subset order
    for total in &ints {
        for n in 0..=recs.len() {
            for start in 0..recs.len() {
                let nodes: Vec<Enr> = (0..n).map(|i| recs[(start + i) % recs.len()].clone()).collect();
                out.push(v::Message::Response(v::Response { id: rid(&ids[(n + start) % 9]), body: v::ResponseBody::Nodes { total: *total, nodes } }));
            }
        }
    }
    for b in &boundary {
        out.push(v::Message::Response(v::Response { id: rid(&ids[1]), body: v::ResponseBody::Nodes { total: 1, nodes: vec![b.clone()] } }));
        out.push(v::Message::Response(v::Response { id: rid(&ids[2]), body: v::ResponseBody::Nodes { total: 2, nodes: vec![recs[0].clone(), b.clone(), recs[1].clone()] } }));
    }
    out.push(v::Message::Response(v::Response { id: rid(&ids[3]), body: v::ResponseBody::Nodes { total: 1, nodes: boundary.clone() } }));
    for id in &ids {
        for p in &payloads {
            for q in &payloads {
                out.push(v::Message::Request(v::Request { id: rid(id), body: v::RequestBody::Talk { protocol: p.clone(), request: q.clone() } }));
            }
            out.push(v::Message::Response(v::Response { id: rid(id), body: v::ResponseBody::Talk { response: p.clone() } }));
        }
    }
    out
}

pub fn run_c06() {
    let mut rep = Report::new("C06", "exploration");
    let thorough = rep.thorough();
    let mut st = C06 { decodes: 0, accepted: 0, rejected: 0, distinct: Default::default(), problems: vec![] };
    // caught panics are verdicts here; keep the location-recording hook, just silence its printing
    mc::quiet_panics(true);
    let msgs = rpc_messages(thorough);
    let mut roundtrips = 0u64;
    let mut shapes: Vec<(String, Vec<u8>)> = vec![];
    let mut seen_shape: HashSet<(u8, usize)> = HashSet::new();
    for m in &msgs {
        roundtrips += 1;
        let expected = ref_rpc_encode(m);
        let got = m.clone().encode();
        let ty = expected[0];
        if got != expected {
            st.problem("encoded bytes equal the RLP layout of the specification", &format!("layout:{ty}"), format!("{:?}: {} vs reference {}", m, hex::encode(&got), hex::encode(&expected)), &got);
            continue;
        }
        match st.decode(&expected, "roundtrip") {
            Some(Ok(d)) => {
                let same = &d == m || pong_roundtrip_exception(m, &d);
                if !same {
                    st.problem("decode(encode(m)) == m", &format!("roundtrip:{ty}"), format!("{:?} decoded as {:?}", m, d), &expected);
                }
                st.accepted += 1;
            }
            Some(Err(e)) => st.problem("decode(encode(m)) == m", &format!("roundtrip-err:{ty}"), format!("{:?}: {e}", m), &expected),
            None => {}
        }
        // pick representative encodings for the mutation passes: one per (type, length class)
        let class = (ty, match expected.len() { 0..=10 => 0, 11..=57 => 1, 58..=300 => 2, _ => 3 });
        if seen_shape.insert(class) {
            shapes.push((format!("t{}l{}", class.0, class.1), expected));
        }
    }
    rep.set("roundtrips", roundtrips);
    rep.set("mutation_shapes", shapes.len() as u64);

    for (name, e) in &shapes {
        // every proper prefix must be rejected (missing bytes)
        for l in 0..e.len() {
            st.must_reject(&e[..l], "rejects missing bytes", &format!("prefix:{name}"));
        }
        // trailing bytes
        for tail in [vec![0u8], vec![0x80], vec![0xc0], e.clone()] {
            let mut d = e.clone();
            d.extend_from_slice(&tail);
            st.must_reject(&d, "rejects trailing bytes", &format!("tail:{name}"));
        }
        // every value of every byte among the first N bytes and the last 4 (RLP headers at every
        // nesting level live there): consistency oracle
        let n = if thorough { e.len() } else { e.len().min(48) };
        let mut positions: Vec<usize> = (0..n).collect();
        for p in e.len().saturating_sub(4)..e.len() {
            if !positions.contains(&p) {
                positions.push(p);
            }
        }
        for pos in positions {
            for val in 0..=255u8 {
                if e[pos] == val {
                    continue;
                }
                let mut d = e.clone();
                d[pos] = val;
                st.consistent(&d, &format!("subst:{name}"));
            }
        }
        // one byte removed / inserted anywhere
        for pos in 0..e.len().min(if thorough { e.len() } else { 64 }) {
            let mut d = e.clone();
            d.remove(pos);
            st.consistent(&d, &format!("del:{name}"));
            for ins in [0u8, 0x80, 0xc0, 0xff] {
                let mut d = e.clone();
                d.insert(pos, ins);
                st.consistent(&d, &format!("ins:{name}"));
            }
        }
    }

    // explicit clauses, built with the reference writer
    let id1 = rlp_bytes(&[1]);
    let wrap = |ty: u8, items: &[Vec<u8>]| {
        let mut o = vec![ty];
        o.extend_from_slice(&rlp_list(items));
        o
    };
    for ty in 1..=6u8 {
        let id9 = rlp_bytes(&[1, 2, 3, 4, 5, 6, 7, 8, 9]);
        let tailfields: Vec<Vec<u8>> = match ty {
            1 => vec![rlp_uint(1)],
            2 => vec![rlp_uint(1), rlp_bytes(&[1, 2, 3, 4]), rlp_uint(9)],
            3 => vec![rlp_list(&[rlp_uint(1)])],
            4 => vec![rlp_uint(1), rlp_list(&[])],
            5 => vec![rlp_bytes(b"p"), rlp_bytes(b"q")],
            _ => vec![rlp_bytes(b"r")],
        };
        let mut items = vec![id9];
        items.extend(tailfields.clone());
        st.must_reject(&wrap(ty, &items), "rejects request ids longer than 8 bytes", &format!("id9:{ty}"));
        // the bound is on the length of the id as sent, whatever its content (leading zeros,
        // all zeros, all ones) and however much longer it is
        let long_ids: Vec<Vec<u8>> = vec![
            vec![0, 1, 2, 3, 4, 5, 6, 7, 8],
            vec![0; 9],
            vec![0, 0, 0, 0, 0, 0, 0, 0, 1],
            vec![0xff; 9],
            vec![0; 12],
            vec![0, 0, 0, 0, 1, 2, 3, 4, 5, 6, 7, 8],
            vec![7; 16],
            vec![0; 33],
        ];
        for (j, id) in long_ids.iter().enumerate() {
            let mut items = vec![rlp_bytes(id)];
            items.extend(tailfields.clone());
            st.must_reject(&wrap(ty, &items), "rejects request ids longer than 8 bytes", &format!("id-long:{ty}:{j}"));
        }
        // ... and ids of exactly 8 bytes are fine, leading zeros included
        for id in [vec![0u8; 8], vec![0, 1, 2, 3, 4, 5, 6, 7], vec![0xff; 8]] {
            let mut items = vec![rlp_bytes(&id)];
            items.extend(tailfields.clone());
            st.consistent(&wrap(ty, &items), &format!("id8:{ty}"));
        }
        // extra field inside the list
        let mut items = vec![id1.clone()];
        items.extend(tailfields.clone());
        items.push(rlp_uint(0));
        st.must_reject(&wrap(ty, &items), "rejects trailing bytes", &format!("extra-field:{ty}"));
        // missing last field
        let mut items = vec![id1.clone()];
        items.extend(tailfields[..tailfields.len() - 1].iter().cloned());
        st.must_reject(&wrap(ty, &items), "rejects missing bytes", &format!("missing-field:{ty}"));
        // positive control
        let mut items = vec![id1.clone()];
        items.extend(tailfields.clone());
        st.consistent(&wrap(ty, &items), &format!("control:{ty}"));
    }
    for ty in (0..=255u8).filter(|t| !(1..=6).contains(t)) {
        st.must_reject(&wrap(ty, &[id1.clone(), rlp_uint(1)]), "rejects unknown message types", "type");
    }
    for d in [257u64, 300, 65536, u64::MAX] {
        for pos in 0..3 {
            let mut ds = vec![rlp_uint(1), rlp_uint(2), rlp_uint(3)];
            ds[pos] = rlp_uint(d);
            st.must_reject(&wrap(3, &[id1.clone(), rlp_list(&ds)]), "rejects distances above 256", "distance");
        }
    }
    st.must_reject(&wrap(2, &[id1.clone(), rlp_uint(1), rlp_bytes(&[1, 2, 3, 4]), rlp_uint(0)]), "rejects a zero port", "port0");
    st.must_reject(&wrap(2, &[id1.clone(), rlp_uint(1), rlp_bytes(&[1, 2, 3, 4]), rlp_uint(65536)]), "rejects ports above 65535", "port65536");
    for l in [0usize, 1, 3, 5, 15, 17, 32] {
        st.must_reject(&wrap(2, &[id1.clone(), rlp_uint(1), rlp_bytes(&vec![9u8; l]), rlp_uint(9)]), "rejects IP fields that are neither 4 nor 16 bytes", &format!("iplen{l}"));
    }
    // records that are not valid signed records
    let good = alloy_rlp::encode(&util::enr(&util::key(12), &util::EnrSpec { seq: 1, ip4: Some((Ipv4Addr::new(9, 9, 9, 9), 9)), ..Default::default() }));
    st.consistent(&wrap(4, &[id1.clone(), rlp_uint(1), rlp_list(&[good.clone()])]), "control:record");
    for pos in 0..good.len() {
        let mut bad = good.clone();
        bad[pos] ^= 0x01;
        let d = wrap(4, &[id1.clone(), rlp_uint(1), rlp_list(&[bad.clone()])]);
        // any single-bit change of a signed record must not yield an accepted *different* record:
        // it is either rejected or (RLP-header bits) inconsistent ⇒ consistency oracle decides
        if let Some(Ok(m)) = st.decode(&d, "record-flip") {
            st.problem("rejects records that are not valid signed records", "record-flip", format!("record with bit flipped at {pos} accepted: {:?}", m), &d);
        } else {
            st.rejected += 1;
        }
    }
    for cut in 1..good.len() {
        // truncated record bytes inside a well-formed outer structure
        let d = wrap(4, &[id1.clone(), rlp_uint(1), rlp_list(&[good[..cut].to_vec()])]);
        st.must_reject(&d, "rejects records that are not valid signed records", "record-trunc");
    }
    {
        // a structurally well-formed record of more than 300 bytes
        let big = rlp_list(&[rlp_bytes(&[7u8; 64]), rlp_uint(1), rlp_bytes(b"id"), rlp_bytes(b"v4"), rlp_bytes(b"zz"), rlp_bytes(&vec![1u8; 320])]);
        let d = wrap(4, &[id1.clone(), rlp_uint(1), rlp_list(&[big])]);
        st.must_reject(&d, "rejects records that are not valid signed records", "record-oversize");
    }
    // NODES: records-list header length manipulated (inner level), consistency decides
    {
        let recs = rlp_list(&[good.clone(), good.clone()]);
        for delta in -12i64..=12 {
            if delta == 0 {
                continue;
            }
            // rewrite the inner list header to claim payload+delta bytes
            let payload_len = good.len() * 2;
            let claimed = (payload_len as i64 + delta) as usize;
            let mut inner = rlp_len(0xc0, claimed);
            inner.extend_from_slice(&recs[rlp_len(0xc0, payload_len).len()..]);
            let list_payload = [id1.clone(), rlp_uint(1), inner].concat();
            let mut d = vec![4u8];
            d.extend_from_slice(&rlp_len(0xc0, list_payload.len()));
            d.extend_from_slice(&list_payload);
            st.consistent(&d, "nodes-inner-len");
        }
    }
    // all short strings: every byte string of length 0..=2, and length 3 with a type prefix
    for a in 0..=255u8 {
        st.consistent(&[a], "short");
        for b in 0..=255u8 {
            st.consistent(&[a, b], "short");
        }
    }
    for ty in 0..=7u8 {
        for b in 0..=255u8 {
            for c in [0u8, 1, 0x7f, 0x80, 0x81, 0xc0, 0xc1, 0xff] {
                st.consistent(&[ty, b, c], "short3");
                st.consistent(&[ty, 0xc2, b, c], "short4");
            }
        }
    }
    mc::quiet_panics(false);

    rep.set("evaluations", st.decodes + roundtrips);
    rep.set("decodes", st.decodes);
    rep.set("accepted", st.accepted);
    rep.set("rejected", st.rejected);
    rep.set("distinct_nontrivial", st.distinct.len() as u64);
    rep.set("rule", "finite alphabet enumerated completely: message grid (ids 0..8 bytes, integer corners, distance lists ≤ L over {0,1,127,128,255,256}, 0..4 signed records, payload corners, v4/v6 addresses) against an independent RLP writer and decode∘encode = id; per encoding shape every proper prefix, 4 tails, all 255 substitutions at every (quick: first 48 + last 4) byte, single-byte deletion/insertion; explicit clause list (id 9 bytes, distance > 256, port 0, ip lengths, unknown types, record bit flips / truncations / oversize, inner list length ±12); all strings of length ≤ 2. Oracle for mutated inputs: accepted ⇒ input equals the reference encoding of the decoded message. distinct = distinct (outcome, input class, type byte)");
    rep.set("exhaustive", true);
    rep.sample(json!({"class":"roundtrip","message":format!("{:?}", msgs[msgs.len()/3]).chars().take(200).collect::<String>()}));
    rep.sample(json!({"class":"subst","shape":shapes[0].0,"bytes":hex::encode(&shapes[0].1)}));
    rep.assume("record validity is delegated to the enr crate (executed, not verified)");
    rep.assume("IPv4-mapped/compatible IPv6 addresses in PONG decode to IPv4 by design (excluded from the exactness clause)");
    for p in std::mem::take(&mut st.problems) {
        rep.violation(p);
    }
    if st.accepted < 100 || st.rejected < 1000 {
        rep.vacuous("C06 vacuous");
    }
    rep.finish();
}

fn pong_roundtrip_exception(m: &v::Message, d: &v::Message) -> bool {
    // v4-mapped / compatible v6 → v4 by design
    if let (v::Message::Response(a), v::Message::Response(b)) = (m, d) {
        if let (v::ResponseBody::Pong { ip: IpAddr::V6(x), enr_seq: s1, port: p1 }, v::ResponseBody::Pong { ip: IpAddr::V4(y), enr_seq: s2, port: p2 }) = (&a.body, &b.body) {
            return a.id == b.id && s1 == s2 && p1 == p2 && !x.is_loopback() && x.to_ipv4() == Some(*y);
        }
    }
    false
}

pub fn replay(check: &str, payload: &serde_json::Value) {
    match check {
        "C05" => {
            let id = hex::decode(payload["local_id"].as_str().unwrap()).unwrap();
            let data = hex::decode(payload["datagram"].as_str().unwrap()).unwrap();
            let id = NodeId::parse(&id).unwrap();
            println!("reference: {:?}", ref_decode(&id, &data).map(|(p, _)| p));
            println!("decode:    {:?}", VPacket::decode(&id, &data).map(|(p, _)| p));
        }
        _ => {
            let data = hex::decode(payload["bytes"].as_str().unwrap()).unwrap();
            let r = v::Message::decode(&data);
            println!("decode: {:?}", r);
            if let Ok(m) = r {
                println!("re-encoded: {}", hex::encode(ref_rpc_encode(&m)));
                println!("input:      {}", hex::encode(&data));
            }
        }
    }
}
