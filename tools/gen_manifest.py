#!/usr/bin/env python3
"""Regenerates /verif/MANIFEST.json from the table below (single source of truth)."""
import json, subprocess
props = [json.loads(l) for l in open('/verif/properties.jsonl')]
ids = [p['id'] for p in props]

ENGINES = [
 {"name":"codec","path":"harness/src/codec.rs","serves_properties":["C05","C06"],"kind_free_text":"bounded-exhaustive enumeration of a finite input alphabet against independent reference encoder/decoder"},
 {"name":"query","path":"harness/src/query.rs","serves_properties":["C09","C10"],"kind_free_text":"explicit-state BFS over event histories on the real FindNodeQuery / PredicateQuery / QueryPool with explicit time"},
 {"name":"filter","path":"harness/src/filter.rs","serves_properties":["C18"],"kind_free_text":"explicit-state BFS of the real Limiter against an exact token bucket; full path enumeration; history-replay BFS of the real packet Filter with the global permit/ban list"},
 {"name":"ssim","path":"harness/src/ssim.rs","serves_properties":["C11","C12","C14","C17","C20"],"kind_free_text":"real Discv5/Service over a scripted handler (feature-gated early return in Handler::spawn); event histories enumerated exhaustively"},
 {"name":"hsim","path":"harness/src/hsim.rs (+ hdrive.rs, attack.rs, tamper.rs, expiry.rs)","serves_properties":["C01","C02","C03","C04","C12","C13","C14","C15","C19","C20"],"kind_free_text":"2-4 real Handlers on virtual sockets (feature-gated early return in Socket::new; real RecvHandler::handle_inbound), harness-owned application, network, clock and crafted attacker; history-replay BFS with a deviation budget, every history run to a leaf"},
 {"name":"table","path":"harness/src/table.rs","serves_properties":["C07","C08","C16"],"kind_free_text":"explicit-state BFS over operation histories on the real KBucketsTable (history replay, canonical fingerprints)"},
]

# id -> (category, technique, engine, text, note, design_ref)
CHECKS = {
 "C05": ("exploration","bounded-exhaustive enumeration of a finite datagram alphabet, differential against an independent reference codec","codec",
   "Every datagram of a stated finite alphabet (packet grid; per shape all prefixes, all values of each unmasked header byte, bit flips, kind x auth-size grid, handshake size grid, all lengths 0..1400) is decoded by the real Packet::decode and by an independent reference decoder and the results must agree; encode must equal an independent reference encoder byte for byte, also under five configured protocol identities (decode under any other identity must fail). Exhaustive over the alphabet, not over all 2^(8*1400) strings.",
   "Trusts aes/ctr crates (reference masking), enr crate for record validity; CTR counter width not decided (see DESIGN.md).","3/C05"),
 "C06": ("exploration","bounded-exhaustive enumeration of a finite message/byte alphabet against an independent RLP writer plus accept=>re-encode consistency oracle","codec",
   "All messages of a stated grid round-trip and equal an independent RLP writer; all prefixes, tails, byte substitutions, deletions/insertions of representative encodings and an explicit clause list must be rejected or be the exact encoding of what they decode to.",
   "Trusts the enr crate for record validity and alloy-rlp primitives used by the implementation; reference writer is ~40 lines.","3/C06"),
 "C07": ("model_checking","explicit-state BFS over operation histories on the real routing table (history replay, deduplicated by canonical fingerprint), invariants after every call","table",
   "All operation sequences up to the stated depth from the empty table and from legally built seeds (full / nearly full buckets in several status splits, with and without a pending candidate) over role-based key alphabets, incoming limits and pending timeouts; every structural and pending-slot clause is evaluated after every API call on the real KBucketsTable.",
   "Keys crafted with Key::new_raw; harness-owned clock; depth bound stated in evidence.","3/C07"),
 "C08": ("model_checking","exhaustive grid over visiting-order shapes plus the same differential oracle in every state of the C07-style BFS","table",
   "closest_keys / closest_values / closest_values_predicate must equal the sorted full scan and nodes_by_distances must return exactly the nodes at the requested distinct distances up to the cap: (1) for every set of <=4 (thorough 5) bit positions from {0,1,2,3,7,8,127,128,254,255}, three local ids, the full key space over those bits as table content and every key of the space as target; (2) in every state reached by the operation-history BFS.",
   "Differential oracle: iter_ref() full scan sorted by XOR distance computed by the harness.","3/C08"),
 "C16": ("model_checking","explicit-state BFS over operation histories on the real table with the real IP filters; limits checked in every state","table",
   "All operation sequences up to the stated depth from seeds with 8/9/10 nodes of the contended /24 and a full bucket with/without a pending candidate: inserts into same/other/full bucket, record updates moving nodes between subnets (stored and pending), status changes, removals, time passing, iteration; per-bucket (2) and per-table (10) /24 limits evaluated after every call. Service level: a real Discv5 configured with ip_limit() in the IPv4, IPv6 and dual-stack listen modes refuses the third record of a /24 in a bucket and the eleventh in the table.",
   "Every record is signed by a key bound to exactly one crafted table key; harness-owned clock.","3/C16"),

 "C09": ("model_checking","explicit-state BFS over event histories on the real query state machines and QueryPool (history replay), ledger oracle, every state run to completion","query",
   "All histories up to the stated depth over {poll, success(p, reported set), failure(p), peer timeout, query timeout} for plain and predicate lookups, stand-alone and inside the real QueryPool, over initial candidate sets, parallelism and result counts; an independent ledger decides in-flight counts and repeated issuance; every explored state is additionally driven to completion (termination / exactly-once result).",
   "Component level; parallelism rule is the conservative form stated in DESIGN.md (a stall needs at least `parallelism` answered requests).","3/C09"),
 "C10": ("model_checking","same search as C09; result clauses evaluated at every finished / timed-out state","query",
   "At every finished or cut-off state reached by the C09 search (and its completions): at most k results, distinct, strictly increasing XOR distance, each answered the request, predicate results reported with a satisfying record, and completeness when fewer than k are returned.",
   "Component level; accepts the constructor's truncation of the initial candidates to k.","3/C10"),
 "C14": ("exploration","exhaustive enumeration of (table content x request) pairs on the real Service over a scripted handler, wire size measured with the real session encryption and packet codec; plus explicit-state BFS of attacker-move histories on real handlers for the handler part of the PING clause","ssim",
   "For every combination of max_nodes_response, fill of the three populated buckets, record size (minimal / 300 bytes / sizes straddling the split threshold), distance list, request id length and requester (unknown v4/v6, stored in a requested bucket) the NODES packets emitted by the real Service are checked: exact record set, own record iff 0, never the requester, cap, common id, total = packet count, wire size <= 1280; PINGs from several sources before/after a sequence bump. Handler part: in the attacker worlds (<= 2 (3) moves) a PING enclosed in a valid handshake - the peer's record verifiable or not - is handed to the application in that step.",
   "Only the three highest buckets can be populated with real keys; lower distances are requested but empty.","3/C14"),
 "C18": ("model_checking","explicit-state BFS of the real Limiter vs an exact token bucket, exhaustive path enumeration, history-replay BFS of the real Filter with all 16 ban/permit combinations","filter",
   "Every decision of the real GCRA limiter equals an exact token bucket on all event sequences to the stated depth (bursts 1..3, two keys, half-period grid, prune calls anywhere); on every path the pass log obeys burst + rate x window and removing prune events changes nothing; the real packet Filter (real RateLimiter, global permit/ban list) agrees with a two-stage reference on decisions, ban-list contents and ban expiry for all 16 ban/permit combinations.",
   "Half-token-period time grid; heuristics max_nodes_per_ip / max_bans_per_ip disabled; single process, list reset per execution.","3/C18"),
 "C20": ("model_checking","explicit-state BFS over all interleavings of deliver/respond/drop/shutdown on the real Service with a scripted handler; plus deviation-bounded BFS on real handlers for the transport part","ssim",
   "All interleavings of three concurrently delivered TALK requests (two peers, one reused id), respond / drop / hold per request object and shutdown at any point, on the real Discv5: exactly one TALKRESP per request with the right id, address and payload while running; no panic and an error value after shutdown. The graph is finite and explored completely. Handler part (real handlers, K <= 2 (3) deviations): while the application holds a delivered request, timer steps that only report timeouts never remove the requester's session, and the response handed over is put on the wire to the requester. The crate under test is built with its debug assertions armed.",
   "The scripted handler drops its receiver when told to exit, as the real one does.","3/C20"),
 "C11": ("model_checking","exhaustive enumeration of request classes x answer shapes on real services (requester and responder both the real Service, relayed by the harness; scripted malicious responder), one world per process, against a reference NODES validator","ssim",
   "World A: for every log2-distance class 0..256 between lookup target and responder (every request list the lookup code can produce) and three responder table contents, a real responder service answers a real requester service: never banned, all records reach the lookup. World B: every answer of up to 2 (thorough 3) packets over 11 packet contents x 8 claimed totals (+ inconsistent totals, failure after a partial answer), floods of 22 packets and packets after completion, against a reference (completion point, on-distance filter, ban of the node id iff an off-distance record was processed); every malicious shape is also run with the responder's IP already on the ban list.",
   "Real keys cannot be generated at low distances: for low request classes the only on-distance record is the responder's own. Process-global ban list: one world per execution, shards are processes.","3/C11"),
 "C12": ("model_checking","explicit-state BFS over histories of scripted handler reports and user calls on the real Service; oracle over table_entries() after every step","ssim",
   "All histories up to the stated depth, from the empty table and from a populated table with a lookup in flight, over Established (8 record shapes), UnverifiableEnr, NODES answers to lookup and ENR requests (8 shapes + the local record), PONG, RequestFailed, add_enr, remove_node, disconnect_node, find_node, for 3 IP modes x 3 table filters: every entry contactable, passes the filter, not local, admitted only via session or explicit add; NODES-learnt replacement only with strictly higher seq.",
   "The single-stack address check of incoming sessions is decided by the handler (checked in the handler engine when built).","3/C12"),
 "C17": ("model_checking","explicit-state BFS over histories of PONG votes, failures and time passing on the real Service with a scripted handler; reference vote ledger","ssim",
   "All histories up to the stated depth over {PONG(voter, address) answering a real service ping, request failure, ping interval, vote expiry} for minimum 2 and 3, 4-5 voters of mixed connection direction, IPv4 and dual-stack: whenever the local record's UDP address changes, the new address has at least the minimum number of distinct unexpired voters (clear-majority margin in all-eligible worlds), seq increases, signature verifies, exactly one SocketUpdated event.",
   "Which PONGs count as votes is implementation policy: the margin clause is checked in worlds where every voter is eligible; mixed worlds check the policy-independent minimum clause.","3/C17"), "C01": ("model_checking","explicit-state BFS over attacker-move histories (deviation budget K) on real handlers: victim, genuine peer and a crafted Dolev-Yao attacker using the crate's own primitives; harness-side proved(id,address) fact vs handler bookkeeping and reported events","hsim",
   "All histories with at most K attacker moves (messages claiming X's or its own id from its own or X's address; 15-24 handshake variants per outstanding challenge: claimed id x attached record x signature; forged WHOAREYOUs for any in-flight request; replays of every handshake/WHOAREYOU from the original or the attacker's address; responder answers) interleaved with genuine traffic under the default policy, in four (thorough seven) worlds incl. X known with seq 1/5, V dialling X, V dialling M: a session for (id, address) or any Established/Unverifiable/Request/Response naming it appears only if that party proved the id (signature under the key hashing to it over V's outstanding challenge) or V itself dialled that key and the datagram really came from its holder.",
   "Symbolic attacker (guesses nothing; crypto strength assumed). Initiator role: Established(Outgoing) is issued by protocol design when V sends its own handshake; table effects are observed at the handler boundary.","3/C01"),
 "C02": ("fault_enumeration","exhaustive enumeration of mutation descriptors over every genuine datagram of three base exchanges on real handlers; authenticity oracle on every application delivery","hsim",
   "For every datagram delivered in three base exchanges (fresh session, re-keyed session with old keys retained, session awaiting the peer's record) every bit flip / truncation / insertion / tail / unmasked-domain header edit / header-body splice with every other logged datagram / re-masking for and redirection to another node / foreign source is applied to the live bytes, delivered instead, and the run completed: nothing is ever handed to an application that its attributed sender did not submit.",
   "Symbolic attacker without key material; AES-GCM/CTR strength assumed.","3/C02"),
 "C03": ("model_checking","history-replay BFS with deviation budget on real handlers (honest faults) plus attacker worlds (forged WHOAREYOU, replays, late handshakes); key-material transition rule on handler snapshots","hsim",
   "In every step of every explored history (8-13 honest workloads with <= K network/application/timing deviations; attacker worlds with <= K moves incl. replay of every handshake/WHOAREYOU at every later point from the original and another address, forged WHOAREYOUs for in-flight requests and for handshake packets): new session key material appears only in a step that delivered a handshake for an outstanding (id, address) challenge which is gone afterwards, or a WHOAREYOU echoing the nonce of a not-yet-answered in-flight request from its destination address; handshakes are emitted only in the latter case; at most one handshake per request.",
   "Reads handler bookkeeping through the snapshot hook; random values are not owned (canonical observations, divergence guard).","3/C03"),
 "C04": ("model_checking","history-replay BFS with deviation budget K on 2-3 real handlers, outcome ledger with full request ids, every history run to a leaf","hsim",
   "All histories with <= K deviations (reorder, drop, duplicate, record-less who-are-you answer, early timer, peer restart; request submission timing free) over 8 (thorough 13) workloads of up to 3 concurrent requests in both directions, with/without record, multi-packet answers, retries 0..2: at most one terminal outcome always, exactly one at every leaf, transmissions per (request, key) <= 1+retries, Timeout only if some request to that peer was unanswered for a full timeout.",
   "<= 3 requests, <= 3 nodes, K <= 2 quick / 3 thorough.","3/C04"),
 "C13": ("model_checking","same search as C04 plus attacker worlds; exemption map compared with handler bookkeeping in every quiescent state, emptiness at every leaf","hsim",
   "In every quiescent state of the C04 search and of the attacker worlds (malicious peer: WHOAREYOU for in-flight requests and for handshake packets, handshakes failing after the challenge was consumed, bad signatures, silence, partial answers) the shared exemption map equals the multiset of addresses of outstanding requests and challenges; no request stays outstanding once its answer was consumed; at every leaf the map is empty.",
   "Exemption map read through the virtual-socket hook; bookkeeping through the snapshot hook.","3/C13"),
 "C15": ("model_checking","explicit-state BFS on the real LruTimeCache vs a list reference, and history-replay BFS on 2-4 real handlers with idle periods around the session timeout and capacity 1/2","hsim",
   "Component: all operation sequences to depth 6 (thorough 8) on the real cache (capacity 1..3, ttl 10 s, idle 4/7 s). Handler: every interleaving of request submissions in both directions with idle periods of 99/101 s around a 100 s session timeout, and every order of session establishment with capacity 1 and 2: no message is encrypted or accepted under a session idle for longer than the timeout, sessions <= capacity, the victim is the least recently used.",
   "Idle periods are taken only while nothing is in flight.","3/C15"),
 "C19": ("model_checking","C04 search and attacker-move BFS re-run with the random part of every message nonce forced to a per-key constant (hook); datagrams grouped by the session key that decrypts them","hsim",
   "On every explored history (retransmissions, re-keying by either side with requests in flight, peer restart) with the 8 random nonce bytes forced constant per session key, and in the attacker worlds (genuine handshakes of a crafted peer with verifiable / unverifiable record, garbage, replays; <= 4 (5) moves): two datagrams of one node that decrypt under the same key carry different nonces or are byte-identical; id-nonces of WHOAREYOUs never repeat exactly.",
   "u32 counter wrap out of reach; id-nonce uniqueness is probabilistic (only exact repeats are caught).","3/C19"),
}

NA_REASON = "check not built yet (work in progress; see DESIGN.md for the planned engine)"

def main():
    commits = subprocess.run(["git","-C","/repo","log","--format=%h %s"],capture_output=True,text=True).stdout.splitlines()
    hook_commits = [c.split()[0] for c in commits if not c.split(' ',1)[1].startswith('fix:') and c.split(' ',1)[1].strip() != 'snapshot']
    m = {"version":1,
      "setup_cmd":"./check build",
      "hooks":{"guard":"verif-hooks","enable":"cargo feature: the harness crate depends on discv5 = { path = \"/repo\", features = [\"verif-hooks\"] }; every check rebuilds it from /repo's working tree",
               "baseline_off_cmd":"cd /repo && cargo test --workspace --no-fail-fast --offline","source_commits":hook_commits,"add_only":True},
      "engines":ENGINES,"checks":[],
      "notes":"All checks: ./check <ID> quick|thorough (exit 0 holds, 1 violation, 2 machinery error). Replay: ./check replay <path>. Known/fixed findings: known_findings.json. See DESIGN.md.",
      "not_applicable":[]}
    for i in ids:
        if i in CHECKS:
            cat,tech,eng,text,note,ref = CHECKS[i]
            m["checks"].append({"property_id":i,"quick_cmd":f"./check {i} quick","thorough_cmd":f"./check {i} thorough","evidence_file":f"/verif/evidence/{i}.json",
                "replay_cmd_template":"./check replay {path}","engine":eng,
                "level_claimed":{"category":cat,"text":text,"design_ref":ref},"level_note":note,"technique":tech})
        else:
            m["not_applicable"].append({"property_id":i,"reason":NA_REASON})
    json.dump(m,open('/verif/MANIFEST.json','w'),indent=1)
    import jsonschema
    jsonschema.validate(m,json.load(open('/root/.vp/MANIFEST.schema.json')))
    print("manifest ok:",len(m["checks"]),"checks,",len(m["not_applicable"]),"not applicable")
main()
