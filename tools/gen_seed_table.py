#!/usr/bin/env python3
"""Rewrites the table of seeded changes in DESIGN.md §7 from seeded/*/meta.json."""
import json, glob, os, re
rows = []
stats = {}
unreported = []
for d in sorted(glob.glob('/verif/seeded/*/meta.json')):
    m = json.load(open(d))
    sid = m['id']
    rnd = 8 if re.search(r'h[ab]$', sid) else 7 if re.search(r'g[ab]$', sid) else 6 if re.search(r'f[ab]$', sid) else 5 if re.search(r'e[ab]$', sid) else 4 if re.search(r'd[ab]$', sid) else 3 if re.search(r'c[ab]$', sid) else 2 if sid.endswith('b') else 1
    oc = m['our_checks']
    missed = oc.get('missed_at_first')
    st = stats.setdefault(rnd, [0, 0])
    st[0] += 1
    st[1] += 1 if missed else 0
    summ = (m.get('summary') or '').replace('|', '/').replace('\n', ' ')
    summ = summ[:200]
    note = (oc.get('note') or '').replace('|', '/').replace('\n', ' ')
    if missed:
        note = '**missed at first** — ' + note
    if not oc['caught_by']:
        unreported.append(f'`seeded/{sid}`')
    rows.append(f"| `seeded/{sid}` | {m['property']} | {summ} | {', '.join(oc['caught_by'])} | {note} |")
head = ["| seeded change | property | what it changes | caught by | note |", "|---|---|---|---|---|"]
intro = (f"{len(stats)} rounds ({len(rows)} changes). Round 1 and 2: one change per property each (round 2 was told which function round 1 had touched and had to break the property elsewhere). "
         "Rounds 3 to 7: two changes per property each (round 7 for the ten properties with the most misses in round 6), told about all earlier ones and asked for different code and different clauses. Round 8 (second session, eight properties, one change each under a 6-12 minute limit, told nothing about earlier rounds). "
         + " ".join(f"Round {r}: {v[0]} changes, {v[0]-v[1]} reported by the checks as they stood, {v[1]} missed at first." for r, v in sorted(stats.items()))
         + " Every miss led to the strengthening noted in the last column; after each strengthening all stored changes are re-run (`tools/seed_sweep.sh`, result in `seeded/SWEEP.txt`). "
         + (f"{len(unreported)} change(s) are still not reported by any check and are recorded as limits in §4: " + ", ".join(unreported) + ". " if unreported else "")
         + "A few changes break their property only through another property's subject (the column *caught by* then names that check); all others are reported by the check of their own property (exit 1 with the change applied, exit 0 without).")
p = '/verif/DESIGN.md'
s = open(p).read()
start = s.index("| seeded change | property |")
end = s.index("---------------------------------------------------------------------------------------", start)
# replace the paragraph just before the table as well
para_start = s.rfind("\n\n", 0, start - 2)
s = s[:para_start] + "\n\n" + intro + "\n\n" + "\n".join(head + rows) + "\n\n" + s[end:]
open(p, 'w').write(s)
print("rows", len(rows), stats)
