//! C15: sessions expire and the session cache is bounded — component search on the real
//! LruTimeCache plus handler worlds with explicit idling.
use crate::clock;
use crate::hsim::{run_history_with, Body, Driver, Ev, HCfg, Monitors, Req, World};
use crate::lru;
use crate::mc::{self, Limits, Report};
use crate::rt;
use serde_json::json;
use std::collections::BTreeMap;
use std::time::Duration;

pub struct Idler {
    pub max_idles: usize,
    /// also offer the handshake-kind noise packet
    pub hs_noise: bool,
    /// the application may let the earliest timer fire before it submits its next request
    pub wait: bool,
}

impl Driver for Idler {
    fn ext_enabled(&self, w: &World) -> Vec<(Ev, u32)> {
        let quiet = w.inflight.is_empty() && w.nodes.iter().all(|n| n.way_queries.is_empty() && n.inbound.is_empty()) && w.earliest_deadline().is_none();
        let idles = w.scratch.iter().filter(|(k, _)| k == "idle").count();
        let mut out = vec![];
        if self.wait && w.inflight.is_empty() && w.nodes.iter().all(|n| n.way_queries.is_empty() && n.inbound.is_empty()) && w.earliest_deadline().is_some() && w.submitted.iter().any(|s| !*s) {
            out.push((Ev::Ext(50), 0));
        }
        if quiet && idles < self.max_idles && w.submitted.iter().any(|s| *s) && w.submitted.iter().any(|s| !*s) {
            out.push((Ev::Ext(99), 0));
            out.push((Ev::Ext(101), 0));
        }
        // noise: a message packet that claims to come from a peer node 0 holds a session with,
        // from that peer's address, whose body is too short to be anything (at most once per idle
        // period taken): it is not a use of the session
        let noises = w.scratch.iter().filter(|(k, _)| k == "noise").count();
        if quiet && idles > 0 && noises < idles && w.snap(0).map(|s| !s.sessions.is_empty()).unwrap_or(false) {
            out.push((Ev::Ext(7), 0));
            // the same with a handshake-kind packet that answers no challenge
            if self.hs_noise {
                out.push((Ev::Ext(8), 0));
            }
        }
        out
    }
    fn ext_step<'a>(&'a self, w: &'a mut World, code: u32) -> std::pin::Pin<Box<dyn std::future::Future<Output = ()> + 'a>> {
        Box::pin(async move {
            if code == 50 {
                if let Some(d) = w.earliest_deadline() {
                    w.advance_through(d).await;
                }
                return;
            }
            if code == 7 || code == 8 {
                w.scratch.push(("noise".into(), vec![]));
                // the most recently used session's peer
                if let Some(peer) = w.snap(0).and_then(|s| s.sessions.last().map(|x| x.addr.clone())) {
                    let mut nonce = [0u8; 12];
                    nonce[0] = 0xEE;
                    nonce[11] = w.scratch.len() as u8;
                    let kind = if code == 7 {
                        discv5::packet::PacketKind::Message { src_id: peer.node_id }
                    } else {
                        discv5::packet::PacketKind::Handshake { src_id: peer.node_id, id_nonce_sig: vec![0x11; 64], ephem_pubkey: vec![0x02; 33], enr_record: None }
                    };
                    let p = discv5::verif::VPacket { iv: 77, message_nonce: nonce, kind, message: vec![0x55; 5] };
                    let bytes = p.encode(&w.nodes[0].id);
                    w.log_mark = w.log.len();
                    w.deliver_raw(0, peer.socket_addr, &bytes, if code == 7 { 0 } else { 2 }, nonce, -1).await;
                }
                return;
            }
            w.scratch.push(("idle".into(), vec![code as u8]));
            w.advance_through(Duration::from_secs(code as u64)).await;
        })
    }
    fn fingerprint_extra(&self, w: &World) -> u128 {
        mc::fp_of(&(w.scratch.iter().filter(|(k, _)| k == "idle").count(), w.scratch.iter().filter(|(k, _)| k == "noise").count()))
    }
}

fn req(from: usize, to: usize, body: Body) -> Req {
    Req { from, to, body, with_enr: true }
}

pub fn configs(thorough: bool) -> Vec<(String, HCfg)> {
    let quiet = |nodes: usize, w: Vec<Req>, cap: Option<usize>| HCfg { nodes, workload: w, session_timeout: Some(Duration::from_secs(100)), session_capacity: cap, allow_drop: false, allow_dup: false, allow_reorder: false, allow_early_timer: false, allow_late_way: false, ..Default::default() };
    let mut out = vec![
        ("expiry-two".to_string(), quiet(2, vec![req(0, 1, Body::Ping), req(1, 0, Body::Ping), req(0, 1, Body::Talk), req(1, 0, Body::Talk)], None)),
        ("capacity-1".to_string(), quiet(4, vec![req(0, 1, Body::Ping), req(0, 2, Body::Ping), req(3, 0, Body::Ping), req(0, 1, Body::Talk)], Some(1))),
        ("capacity-2".to_string(), quiet(4, vec![req(0, 1, Body::Ping), req(0, 2, Body::Ping), req(0, 3, Body::Ping), req(0, 1, Body::Talk)], Some(2))),
    ];
    // crossing handshakes with free application timing and a session timeout of the order of the
    // request timeout: a who-are-you query answered late leaves a challenge outstanding next to a
    // live session
    let mut crossing = quiet(2, vec![req(1, 0, Body::Ping), req(0, 1, Body::Ping), req(0, 1, Body::Talk)], None);
    crossing.session_timeout = Some(Duration::from_millis(1500));
    crossing.free_app_timing = true;
    out.push(("crossing-late-answer".to_string(), crossing));
    // retransmissions next to a session timeout of the order of the request lifetime: a
    // retransmission re-sends the stored datagram, it is no use of the session
    let mut resend = quiet(2, vec![req(0, 1, Body::Ping), req(0, 1, Body::Talk), req(0, 1, Body::Ping)], None);
    resend.retries = 2;
    resend.session_timeout = Some(Duration::from_millis(2500));
    resend.allow_drop = true;
    // (cheap: explored first, so that a loaded machine cannot starve it of its wall share)
    out.insert(0, ("retries2-short-session".to_string(), resend));
    if thorough {
        out.push(("expiry-three".to_string(), quiet(3, vec![req(0, 1, Body::Ping), req(2, 0, Body::Ping), req(0, 1, Body::Talk), req(0, 2, Body::Talk), req(1, 0, Body::Find(2))], None)));
        out.push(("capacity-2-mixed".to_string(), quiet(4, vec![req(1, 0, Body::Ping), req(0, 2, Body::Ping), req(3, 0, Body::Ping), req(0, 1, Body::Talk), req(0, 3, Body::Talk)], Some(2))));
    }
    out
}

pub fn regression_holds(payload: &serde_json::Value) -> bool {
    let name = payload["workload"].as_str().unwrap_or("");
    let hist = crate::hsim::parse_history(payload["history"].as_str().unwrap_or("[]"));
    let cfgs = configs(true);
    let cfg = match cfgs.iter().find(|(n, _)| n == name) {
        Some((_, c)) => c.clone(),
        None => return true,
    };
    let monitors = Monitors { c03: false, c04: false, c13: false, c15: true, c19: false, c20: false };
    rt::run(run_history_with(&cfg, monitors, &hist, true, &Idler { max_idles: 3, hs_noise: true, wait: true })).violation.is_none()
}

pub fn replay(payload: &serde_json::Value) {
    let name = payload["workload"].as_str().unwrap_or("");
    let hist = crate::hsim::parse_history(payload["history"].as_str().unwrap_or("[]"));
    let cfgs = configs(true);
    let cfg = match cfgs.iter().find(|(n, _)| n == name) {
        Some((_, c)) => c.clone(),
        None => mc::machinery(&format!("unknown configuration {name}")),
    };
    let monitors = Monitors { c03: false, c04: false, c13: false, c15: true, c19: false, c20: false };
    rt::run(crate::hsim::replay_verbose(&cfg, monitors, &hist, &Idler { max_idles: 3, hs_noise: true, wait: true }));
}

pub fn run() {
    let mut rep = Report::new("C15", "model_checking");
    let thorough = rep.thorough();
    // component part
    let lru = lru::search(if thorough { 8 } else { 6 }, mc::budget(thorough, 20.0, 0.3));
    rep.set("lru_component_states", lru.states);
    rep.set("lru_component_transitions", lru.transitions);
    for (k, v) in &lru.counters {
        rep.set(&format!("lru_activations_{k}"), *v);
    }
    if let Some(s) = &lru.sample {
        rep.sample(json!({"part":"LruTimeCache","history":s}));
    }
    let mut found: Vec<mc::Violation> = lru.violations.clone();
    // service level: the configured values reach the handler
    let (cases, svc) = crate::ssim::c15_service_level();
    rep.set("service_level_configurations", cases);
    found.extend(svc);
    // handler part
    let monitors = Monitors { c03: false, c04: false, c13: false, c15: true, c19: false, c20: false };
    let max_idles = if thorough { 3 } else { 2 };
    let cfgs = configs(thorough);
    let budget = mc::budget(thorough, 40.0, 0.7);
    let start = clock::wall();
    let per = budget / cfgs.len() as f64;
    let (mut states, mut trans, mut execs, mut steps) = (lru.states, lru.transitions, lru.executions, 0u64);
    let mut counters: BTreeMap<&'static str, u64> = BTreeMap::new();
    let mut exhaustive = lru.exhaustive;
    let mut caps = vec![];
    let mut per_world = vec![];
    for (name, cfg) in &cfgs {
        let remaining = (budget - (clock::wall() - start)).min(per * 2.0);
        if remaining < 1.0 {
            exhaustive = false;
            caps.push("wall budget".to_string());
            break;
        }
        let limits = Limits { max_budget: if cfg.allow_drop { 2 } else { 0 }, max_depth: 80, max_states: 2_000_000, wall_s: remaining };
        let mut vio = vec![];
        let mut smp = vec![];
        let w0 = clock::wall();
        let m = monitors.clone();
        let mut cfg = cfg.clone();
        cfg.focus = vec!["C15".to_string()];
        let cfg = &cfg;
        // quick: the handshake-kind noise packet in the two-node world and the capacity-2 world
        // the retransmission world has free application timing and timers instead of idle periods
        let d = Idler { max_idles: if name == "retries2-short-session" { 0 } else { max_idles }, hs_noise: thorough || name == "expiry-two" || name == "capacity-2", wait: name == "retries2-short-session" };
        let stats = mc::explore(&limits, |h: &[Ev]| rt::run(run_history_with(cfg, m.clone(), h, true, &d)), |v, _| vio.push(v), |h, o| {
            if o.enabled.is_empty() {
                smp.push(format!("{:?}", h))
            }
        });
        per_world.push(json!({"world":name,"states":stats.states,"transitions":stats.transitions,"wall_s":((clock::wall()-w0)*10.0).round()/10.0}));
        states += stats.states;
        trans += stats.transitions;
        execs += stats.executions;
        steps += stats.steps;
        for (k, v) in stats.counters {
            *counters.entry(k).or_insert(0) += v;
        }
        if !stats.exhaustive {
            exhaustive = false;
            caps.push(format!("{name}: {}", stats.cap.unwrap_or_default()));
        }
        if let Some(s) = smp.into_iter().last() {
            rep.sample(json!({"part":"handler","world":name,"history":s}));
        }
        for mut v in vio {
            if v.key.starts_with("C15:") || v.key.starts_with("panic:") {
                v.replay["workload"] = json!(name);
                v.replay["engine"] = json!("hsim");
                v.replay["driver"] = json!("expiry");
                found.push(v);
            }
        }
    }
    rep.set("states", states);
    rep.set("transitions", trans);
    rep.set("traces_validated_against_impl", execs);
    rep.set("handler_steps_executed", steps);
    rep.set("evaluations", execs);
    rep.set("distinct_nontrivial", states);
    rep.set("exhaustive", exhaustive);
    rep.set("handler_worlds", json!(per_world));
    if !caps.is_empty() {
        rep.set("caps", json!(caps));
    }
    for (k, v) in &counters {
        rep.set(&format!("activations_{k}"), *v);
    }
    rep.set("rule", "component: explicit-state BFS over {insert, get, get_mut, peek, remove, purge, len, idle 4 s / 7 s} on the real LruTimeCache (ttl 10 s, capacity 1..3, capacity + 1 keys — at least 3) against a list reference; handler: explicit-state BFS over every interleaving of request submissions in both directions with idle periods of 99 s / 101 s (session timeout 100 s) on 2–4 real handlers, and every order of session establishment with capacity 1 / 2; wire + bookkeeping oracle (no message encrypted or accepted under a session idle for longer than the timeout; sessions ≤ capacity; victim = least recently used)");
    rep.assume("idle periods are taken only while nothing is in flight (no request or challenge timer pending)");
    for v in found {
        rep.violation(v);
    }
    for k in ["steps_with_expired_session", "capacity_evictions"] {
        if counters.get(k).copied().unwrap_or(0) == 0 {
            rep.vacuous(&format!("C15 vacuous: {k} = 0"));
        }
    }
    if lru.counters.get("expired_lookups").copied().unwrap_or(0) == 0 || lru.counters.get("evictions").copied().unwrap_or(0) == 0 {
        rep.vacuous("C15 vacuous (component)");
    }
    rep.finish();
}
