//! C15, component part: the real `LruTimeCache` against a list reference, explicit time.
use crate::clock;
use crate::mc::{self, Limits, Outcome, Violation};
use discv5::verif::LruTimeCache;
use serde_json::json;
use std::collections::BTreeMap;
use std::time::{Duration, Instant};

const TTL: Duration = Duration::from_secs(10);

#[derive(Clone, Debug, PartialEq, Eq, Hash)]
pub enum LOp {
    Insert(u8),
    Get(u8),
    GetMut(u8),
    Peek(u8),
    Remove(u8),
    Purge,
    Len,
    Idle(u8),
}

struct Ref {
    cap: usize,
    /// least recently used first: (key, value, last use)
    list: Vec<(u8, u64, Instant)>,
}

fn v(clause: &str, key: &str, detail: String) -> Violation {
    Violation { clause: clause.into(), key: key.into(), detail, replay: json!(null) }
}

fn run_lru(cap: usize, hist: &[LOp]) -> Outcome<LOp> {
    let mut cache: LruTimeCache<u8, u64> = LruTimeCache::new(TTL, Some(cap));
    let mut r = Ref { cap, list: vec![] };
    let mut chain = vec![];
    let mut prev = None;
    let mut violation = None;
    let mut counters: BTreeMap<&'static str, u64> = BTreeMap::new();
    let mut step_no = 0u64;
    for (i, op) in hist.iter().enumerate() {
        step_no += 1;
        if i + 1 == hist.len() {
            counters.clear();
        }
        let now = Instant::now();
        let live = |e: &(u8, u64, Instant)| now.saturating_duration_since(e.2) <= TTL;
        let res: Result<String, Violation> = (|| match op {
            LOp::Insert(k) => {
                cache.insert(*k, step_no);
                r.list.retain(|e| e.0 != *k);
                r.list.push((*k, step_no, now));
                if r.list.len() > r.cap {
                    let ev = r.list.remove(0);
                    *counters.entry("evictions").or_insert(0) += 1;
                    // the dropped entry must be the least recently used one
                    if cache.peek(&ev.0).is_some() && live(&ev) {
                        return Err(v("when capacity is reached the least recently used entry is dropped", "lru:wrong-victim", format!("key {} (least recently used) still cached after inserting {k}", ev.0)));
                    }
                }
                for e in &r.list {
                    if live(e) && cache.peek(&e.0) != Some(&e.1) {
                        return Err(v("when capacity is reached the least recently used entry is dropped", "lru:lost-entry", format!("key {} missing after inserting {k}", e.0)));
                    }
                }
                Ok("ins".into())
            }
            LOp::Get(k) | LOp::GetMut(k) => {
                let got = if matches!(op, LOp::Get(_)) { cache.get(k).copied() } else { cache.get_mut(k).map(|x| *x) };
                let pos = r.list.iter().position(|e| e.0 == *k);
                let want = pos.and_then(|p| if live(&r.list[p]) { Some(r.list[p].1) } else { None });
                if let Some(p) = pos {
                    if !live(&r.list[p]) {
                        *counters.entry("expired_lookups").or_insert(0) += 1;
                        if got.is_some() {
                            return Err(v("an entry idle for longer than the timeout is never used again", "lru:expired-returned", format!("{:?} returned an entry idle for {:?}", op, now.saturating_duration_since(r.list[p].2))));
                        }
                    } else {
                        // use refreshes
                        let mut e = r.list.remove(p);
                        e.2 = now;
                        r.list.push(e);
                    }
                }
                if got != want {
                    return Err(v("a live entry is found with its value", "lru:get-mismatch", format!("{:?}: {:?} vs {:?}", op, got, want)));
                }
                Ok(format!("{:?}", got.is_some()))
            }
            LOp::Peek(k) => {
                let got = cache.peek(k).copied();
                let want = r.list.iter().find(|e| e.0 == *k).and_then(|e| if live(e) { Some(e.1) } else { None });
                if got != want {
                    let key = if got.is_some() { "lru:expired-peeked" } else { "lru:peek-mismatch" };
                    return Err(v("an entry idle for longer than the timeout is never used again", key, format!("peek({k}): {:?} vs {:?}", got, want)));
                }
                Ok(format!("{:?}", got.is_some()))
            }
            LOp::Remove(k) => {
                let got = cache.remove(k);
                let pos = r.list.iter().position(|e| e.0 == *k);
                let want = pos.map(|p| r.list.remove(p).1);
                if got != want {
                    return Err(v("a live entry is found with its value", "lru:remove-mismatch", format!("{:?} vs {:?}", got, want)));
                }
                Ok(format!("{:?}", got.is_some()))
            }
            LOp::Purge => {
                let mut got = cache.remove_expired_values();
                got.sort();
                let mut want: Vec<u8> = r.list.iter().filter(|e| !live(e)).map(|e| e.0).collect();
                want.sort();
                r.list.retain(|e| live(e));
                *counters.entry("purged").or_insert(0) += want.len() as u64;
                if got != want {
                    return Err(v("expired entries are purged and reported", "lru:purge-mismatch", format!("{:?} vs {:?}", got, want)));
                }
                Ok(format!("{}", got.len()))
            }
            LOp::Len => {
                let n = cache.len();
                if n > r.cap {
                    return Err(v("the number of entries never exceeds the capacity", "lru:over-capacity", format!("{n} > {}", r.cap)));
                }
                Ok(format!("{n}"))
            }
            LOp::Idle(s) => {
                clock::advance(Duration::from_secs(*s as u64));
                Ok("idle".into())
            }
        })();
        match res {
            Ok(o) => {
                if cache.len() > r.cap {
                    violation = Some(v("the number of entries never exceeds the capacity", "lru:over-capacity", format!("{} > {}", cache.len(), r.cap)));
                    break;
                }
                let c = mc::chain(prev, &o);
                chain.push(c);
                prev = Some(c);
            }
            Err(e) => {
                violation = Some(e);
                break;
            }
        }
    }
    if let Some(x) = violation.as_mut() {
        x.replay = json!({"engine":"lru","capacity":cap,"history":format!("{:?}",hist)});
    }
    let now = Instant::now();
    // age classes: what an Idle(4|7) can still distinguish
    // the implementation's own order and ages belong to the state as well: with the reference
    // alone, a state in which the cache failed to refresh an entry would be merged with a correct one
    let impl_view: Vec<(u8, u64)> = cache.verif_iter().map(|(k, _, t)| (*k, now.saturating_duration_since(t).as_secs().min(11))).collect();
    let fp = mc::fp_of(&(cap, r.list.iter().map(|e| (e.0, now.saturating_duration_since(e.2).as_secs().min(11))).collect::<Vec<_>>(), cache.len(), impl_view));
    let mut enabled = vec![];
    if violation.is_none() {
        // one key more than the cache holds (at least three): with capacity 3 an entry can sit in the
        // middle of the list and a fourth key evicts
        let keys = (cap as u8 + 1).max(3);
        for k in 1..=keys {
            enabled.push(LOp::Insert(k));
        }
        for k in 1..=keys {
            enabled.extend([LOp::Get(k), LOp::GetMut(k), LOp::Peek(k), LOp::Remove(k)]);
        }
        enabled.extend([LOp::Purge, LOp::Len, LOp::Idle(4), LOp::Idle(7)]);
    }
    Outcome { fp, enabled: enabled.into_iter().map(|e| (e, 0)).collect(), obs_chain: chain, violation, counters, terminal: None, steps: hist.len() as u64 }
}

pub struct LruResult {
    pub states: u64,
    pub transitions: u64,
    pub executions: u64,
    pub counters: BTreeMap<&'static str, u64>,
    pub violations: Vec<Violation>,
    pub sample: Option<String>,
    pub exhaustive: bool,
}

pub fn search(depth: usize, wall: f64) -> LruResult {
    let mut out = LruResult { states: 0, transitions: 0, executions: 0, counters: BTreeMap::new(), violations: vec![], sample: None, exhaustive: true };
    for cap in [1usize, 2, 3] {
        let limits = Limits { max_budget: 0, max_depth: depth, max_states: 3_000_000, wall_s: wall / 3.0 };
        let mut vio = vec![];
        let mut sample = None;
        let stats = mc::explore(&limits, |h: &[LOp]| run_lru(cap, h), |v, _| vio.push(v), |h, _| sample = Some(format!("capacity {cap}: {:?}", h)));
        out.states += stats.states;
        out.transitions += stats.transitions;
        out.executions += stats.executions;
        out.exhaustive &= stats.exhaustive;
        for (k, v) in stats.counters {
            *out.counters.entry(k).or_insert(0) += v;
        }
        out.violations.extend(vio);
        if out.sample.is_none() {
            out.sample = sample;
        }
    }
    out
}
