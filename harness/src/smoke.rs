use crate::{clock, rt, util};
use discv5::verif as v;
use discv5::{ConfigBuilder, ListenConfig, NodeContact, IpMode};
use parking_lot::RwLock;
use std::sync::Arc;
use std::time::Duration;

pub fn run() {
    let t0 = clock::wall();
    let n = 200;
    for _ in 0..n {
        rt::run(async {
            v::arm_virtual_socket(true);
            v::arm_snapshots(true);
            let mut nodes = vec![];
            for i in 0..2u16 {
                let key = util::key(i + 1);
                let addr = util::v4(10, 0, 0, i as u8 + 1, 9000);
                let enr = util::enr4(&key, 1, addr);
                let mut cfg = ConfigBuilder::new(ListenConfig::Ipv4 { ip: "10.0.0.1".parse().unwrap(), port: 9000 + i }).build();
                cfg.executor = Some(Box::new(discv5::TokioExecutor));
                let (exit, tx, rx) = v::Handler::spawn(Arc::new(RwLock::new(enr.clone())), Arc::new(RwLock::new(key)), cfg).await.unwrap();
                let wire = v::take_wire().unwrap();
                nodes.push((enr, addr, exit, tx, rx, wire));
            }
            rt::settle().await;
            let contact = NodeContact::try_from_enr(nodes[1].0.clone(), IpMode::Ip4).unwrap();
            let req = v::Request { id: v::RequestId(vec![1]), body: v::RequestBody::Ping { enr_seq: 1 } };
            nodes[0].3.send(v::HandlerIn::Request(contact, Box::new(req))).unwrap();
            let mut log = vec![];
            for _round in 0..20 {
                rt::settle().await;
                let mut moved = false;
                for i in 0..2 {
                    while let Some(out) = nodes[i].5.try_recv_outbound() {
                        moved = true;
                        let src = nodes[i].1;
                        let j = 1 - i;
                        log.push(format!("{}->{} {:?} {}B", i, j, kind(&out.packet.kind), out.bytes.len()));
                        nodes[j].5.inject(src, &out.bytes).await;
                    }
                    while let Ok(ev) = nodes[i].4.try_recv() {
                        moved = true;
                        match ev {
                            v::HandlerOut::WhoAreYou(r) => { log.push(format!("{} app: WhoAreYou", i)); nodes[i].3.send(v::HandlerIn::WhoAreYou(r, None)).unwrap(); }
                            v::HandlerOut::Request(a, r) => { log.push(format!("{} app: Request", i));
                                let resp = v::Response { id: r.id.clone(), body: v::ResponseBody::Pong { enr_seq: 1, ip: a.socket_addr.ip(), port: std::num::NonZeroU16::new(a.socket_addr.port()).unwrap() } };
                                nodes[i].3.send(v::HandlerIn::Response(a, Box::new(resp))).unwrap(); }
                            other => log.push(format!("{} app: {:?}", i, short(&other))),
                        }
                    }
                }
                if !moved { break; }
            }
            let s = v::snapshot(&nodes[0].0.node_id()).unwrap();
            assert_eq!(s.sessions.len(), 1, "{:?}", log);
            assert!(s.active_requests.is_empty());
            assert!(log.iter().any(|l| l.contains("Response")), "{:?}", log);
            // timers: idle -> nothing; advance
            clock::advance(Duration::from_secs(2));
            rt::settle().await;
            if std::env::var("SMOKE_VERBOSE").is_ok() { for l in &log { println!("{l}"); } println!("{:?}", s.exemptions); }
        });
    }
    println!("smoke ok: {} executions in {:.3}s", n, clock::wall() - t0);
}

fn kind(k: &discv5::packet::PacketKind) -> &'static str {
    match k { discv5::packet::PacketKind::Message{..} => "Message", discv5::packet::PacketKind::WhoAreYou{..} => "WhoAreYou", discv5::packet::PacketKind::Handshake{..} => "Handshake" }
}
fn short(o: &v::HandlerOut) -> String {
    let s = format!("{:?}", o); s.chars().take(40).collect()
}
