//! Engine `table`: C07 (structural invariants), C08 (closest / distance lookups), C16 (IP limits)
//! on the real `KBucketsTable`, driven through its public API with explicit time.
use crate::clock;
use crate::mc::{self, Limits, Outcome, Report, Violation};
use crate::util;
use discv5::enr::k256::sha2::digest::generic_array::GenericArray;
use discv5::enr::NodeId;
use discv5::kbucket::{
    ConnectionDirection as Dir, ConnectionState as St, Entry, InsertResult, KBucketsTable, Key, NodeStatus,
};
use discv5::Enr;
use serde_json::json;
use std::collections::{BTreeMap, HashMap, HashSet};
use std::time::{Duration, Instant};

/* ------------------------------------------------------------------------------------ */
/* Keys                                                                                  */
/* ------------------------------------------------------------------------------------ */

const LOCAL: [u8; 32] = [0x55; 32];

fn key_of(hash: [u8; 32]) -> Key<NodeId> {
    Key::new_raw(NodeId::new(&hash), *GenericArray::from_slice(&hash))
}

fn xor(a: &[u8; 32], b: &[u8; 32]) -> [u8; 32] {
    let mut o = [0u8; 32];
    for i in 0..32 {
        o[i] = a[i] ^ b[i];
    }
    o
}

/// 256-bit value with `bit` set plus `low` in the lowest bits (must be < 2^bit).
fn dist(bit: usize, low: u64) -> [u8; 32] {
    let mut d = [0u8; 32];
    d[31 - bit / 8] |= 1 << (bit % 8);
    let lb = low.to_be_bytes();
    for i in 0..8 {
        d[24 + i] |= lb[i];
    }
    d
}

/// Key number `i` of bucket `b` relative to LOCAL.
fn bucket_key(b: usize, i: u64) -> Key<NodeId> {
    assert!(b >= 63 || i < (1u64 << b));
    key_of(xor(&LOCAL, &dist(b, i)))
}

fn hash_of(k: &Key<NodeId>) -> [u8; 32] {
    k.preimage().raw()
}

fn cmp_dist(t: &[u8; 32], a: &[u8; 32], b: &[u8; 32]) -> std::cmp::Ordering {
    xor(t, a).cmp(&xor(t, b))
}

fn bucket_index(local: &[u8; 32], k: &[u8; 32]) -> Option<usize> {
    let d = xor(local, k);
    for i in 0..32 {
        if d[i] != 0 {
            return Some(255 - (8 * i + d[i].leading_zeros() as usize));
        }
    }
    None
}

fn status(s: u8) -> NodeStatus {
    NodeStatus {
        state: if s & 1 == 1 { St::Connected } else { St::Disconnected },
        direction: if s & 2 == 2 { Dir::Incoming } else { Dir::Outgoing },
    }
}
fn scode(s: &NodeStatus) -> u8 {
    (if s.state == St::Connected { 1 } else { 0 }) | (if s.direction == Dir::Incoming { 2 } else { 0 })
}

/* ------------------------------------------------------------------------------------ */
/* C07 world                                                                             */
/* ------------------------------------------------------------------------------------ */

#[derive(Clone, Debug, PartialEq, Eq, Hash)]
pub enum Role {
    Head,
    Second,
    Mid,
    Tail,
    Pending,
    New(u8),
    Other(u8),
    Local,
}

#[derive(Clone, Debug, PartialEq, Eq, Hash)]
pub enum Op {
    /// Seed construction: insert `n` fresh keys into the hot bucket with status code `s`.
    Fill(u8, u8),
    InsertOrUpdate(Role, u8, u8),
    UpdateNode(Role, u8, Option<bool>),
    UpdateStatus(Role, bool, Option<bool>),
    Remove(Role),
    EntryInsert(Role, u8),
    EntryUpdate(Role, bool, Option<bool>),
    EntryRemove(Role),
    EntryPendingUpdate(Role, u8),
    Iter,
    Closest(u8),
    TakeApplied,
    Idle,
    /// a third of the pending timeout passes (a pending candidate must still be pending)
    PartIdle,
}

#[derive(Clone, Debug)]
pub struct TCfg {
    pub hot: usize,
    pub max_incoming: usize,
    /// pending timeout in seconds (0 = elapsed at once, 1e9 = never)
    pub timeout_s: u64,
    pub seed: Vec<Op>,
}

struct PendingModel {
    created: Instant,
}

pub struct TWorld {
    cfg: TCfg,
    table: KBucketsTable<NodeId, u8>,
    step: u64,
    /// reference: last status-report step per key hash
    report: HashMap<[u8; 32], u64>,
    pending_model: HashMap<usize, ([u8; 32], PendingModel)>,
    next_new: u64,
    pub counters: BTreeMap<&'static str, u64>,
}

type BucketView = (Vec<([u8; 32], u8, u8)>, Option<([u8; 32], u8, u8, bool)>);

impl TWorld {
    pub fn new(cfg: &TCfg) -> Self {
        let table = KBucketsTable::new(
            key_of(LOCAL),
            Duration::from_secs(cfg.timeout_s),
            cfg.max_incoming,
            None,
            None,
        );
        TWorld { cfg: cfg.clone(), table, step: 0, report: HashMap::new(), pending_model: HashMap::new(), next_new: 0, counters: BTreeMap::new() }
    }

    fn count(&mut self, k: &'static str) {
        *self.counters.entry(k).or_insert(0) += 1;
    }

    fn view(&self) -> Vec<(usize, BucketView)> {
        let now = Instant::now();
        let mut out = vec![];
        for (i, b) in self.table.buckets_iter().enumerate() {
            if b.num_entries() == 0 && b.pending().is_none() {
                continue;
            }
            let nodes: Vec<_> = b.iter().map(|n| (hash_of(&n.key), n.value, scode(&n.status))).collect();
            let pending = b.pending().map(|p| (hash_of(p.verif_key()), *p.value(), scode(&p.status()), p.verif_ready_at() <= now));
            out.push((i, (nodes, pending)));
        }
        out
    }

    fn hot_view(&self) -> BucketView {
        self.view().into_iter().find(|(i, _)| *i == self.cfg.hot).map(|(_, v)| v).unwrap_or((vec![], None))
    }

    fn resolve(&self, r: &Role) -> Option<Key<NodeId>> {
        let (nodes, pending) = self.hot_view();
        match r {
            Role::Head => nodes.first().map(|n| key_of(n.0)),
            Role::Second => nodes.get(1).map(|n| key_of(n.0)),
            Role::Mid => {
                // first connected node if there is one beyond the head, else the middle
                let p = nodes.iter().position(|n| n.2 & 1 == 1).filter(|p| *p > 1);
                p.or(if nodes.len() > 4 { Some(nodes.len() / 2) } else { None }).and_then(|p| nodes.get(p)).map(|n| key_of(n.0))
            }
            Role::Tail => if nodes.len() > 2 { nodes.last().map(|n| key_of(n.0)) } else { None },
            Role::Pending => pending.map(|p| key_of(p.0)),
            Role::New(i) => {
                // the i-th key index (above 100) not present in the hot bucket or its pending slot
                let present: HashSet<[u8; 32]> = nodes.iter().map(|n| n.0).chain(pending.iter().map(|p| p.0)).collect();
                let mut found = 0u8;
                for j in 100..140u64 {
                    let k = bucket_key(self.cfg.hot, j);
                    if !present.contains(&hash_of(&k)) {
                        if found == *i {
                            return Some(k);
                        }
                        found += 1;
                    }
                }
                None
            }
            Role::Other(i) => {
                let b = [0usize, 1, 7, 200][*i as usize % 4];
                let b = if b == self.cfg.hot { 9 } else { b };
                Some(bucket_key(b, 0))
            }
            Role::Local => Some(key_of(LOCAL)),
        }
    }

    /// Which roles exist and are pairwise different keys in this state (canonical order).
    fn roles(&self) -> Vec<Role> {
        let mut seen = HashSet::new();
        let mut out = vec![];
        for r in [Role::Head, Role::Second, Role::Mid, Role::Tail, Role::Pending, Role::New(0), Role::New(1), Role::Other(0), Role::Other(2), Role::Local] {
            if let Some(k) = self.resolve(&r) {
                if seen.insert(hash_of(&k)) {
                    out.push(r);
                }
            }
        }
        out
    }

    pub fn enabled(&self, quick: bool) -> Vec<(Op, u32)> {
        let mut ops = vec![];
        let roles = self.roles();
        for r in &roles {
            let in_bucket = matches!(r, Role::Head | Role::Second | Role::Mid | Role::Tail);
            let is_new = matches!(r, Role::New(_) | Role::Other(_));
            let values: &[u8] = if quick { &[1] } else { &[1, 2] };
            for v in values {
                for s in 0..4u8 {
                    if quick && matches!(r, Role::New(1) | Role::Other(2) | Role::Second) && s != 1 {
                        continue;
                    }
                    ops.push(Op::InsertOrUpdate(r.clone(), *v, s));
                }
            }
            if !is_new {
                ops.push(Op::UpdateNode(r.clone(), 2, None));
                ops.push(Op::UpdateNode(r.clone(), 2, Some(true)));
                ops.push(Op::UpdateNode(r.clone(), 1, Some(false)));
                for st in [true, false] {
                    for d in [None, Some(true), Some(false)] {
                        if quick && d == Some(false) {
                            continue;
                        }
                        ops.push(Op::UpdateStatus(r.clone(), st, d));
                    }
                }
                ops.push(Op::Remove(r.clone()));
            }
            if in_bucket {
                ops.push(Op::EntryUpdate(r.clone(), true, Some(true)));
                ops.push(Op::EntryUpdate(r.clone(), true, None));
                ops.push(Op::EntryUpdate(r.clone(), false, None));
                ops.push(Op::EntryRemove(r.clone()));
            }
            if matches!(r, Role::Pending) {
                for s in 0..4u8 {
                    ops.push(Op::EntryPendingUpdate(r.clone(), s));
                }
                ops.push(Op::EntryRemove(r.clone()));
            }
            if matches!(r, Role::New(0) | Role::Other(0)) {
                for s in 0..4u8 {
                    ops.push(Op::EntryInsert(r.clone(), s));
                }
            }
        }
        ops.push(Op::Iter);
        ops.push(Op::Closest(0));
        ops.push(Op::Closest(1));
        ops.push(Op::TakeApplied);
        if self.cfg.timeout_s > 0 && self.cfg.timeout_s < 1_000_000 {
            ops.push(Op::Idle);
        }
        if self.cfg.timeout_s >= 3 {
            ops.push(Op::PartIdle);
        }
        ops.into_iter().map(|o| (o, 0)).collect()
    }

    /// Applies one operation to the real table and evaluates every C07 clause on the result.
    pub fn apply(&mut self, op: &Op) -> Result<String, Violation> {
        self.step += 1;
        let pre = self.view();
        let pre_map: HashMap<usize, BucketView> = pre.iter().cloned().collect();
        let now = Instant::now();
        // which key does this operation report a status for (if any)
        let mut reported: Option<[u8; 32]> = None;
        let mut explicit_insert: Option<[u8; 32]> = None;
        let obs: String;
        match op {
            Op::Fill(n, s) => {
                let mut r = vec![];
                for _ in 0..*n {
                    let k = bucket_key(self.cfg.hot, self.next_new);
                    self.next_new += 1;
                    // a fill is a sequence of inserts; every clause is evaluated after each
                    let pre_i = pre_map_of(&self.view());
                    let res = self.table.insert_or_update(&k, 1, status(*s));
                    r.push(short_ir(&res));
                    self.step += 1;
                    let h = hash_of(&k);
                    let post_i = self.view();
                    self.after(&pre_i, &post_i, Some(h), Some(h), now, true)?;
                }
                obs = format!("fill {:?}", r);
                return Ok(obs);
            }
            Op::InsertOrUpdate(r, v, s) => {
                let k = self.resolve(r).ok_or_else(|| gone(op))?;
                let h = hash_of(&k);
                reported = Some(h);
                explicit_insert = Some(h);
                let res = self.table.insert_or_update(&k, *v, status(*s));
                obs = short_ir(&res);
            }
            Op::UpdateNode(r, v, st) => {
                let k = self.resolve(r).ok_or_else(|| gone(op))?;
                if st.is_some() {
                    reported = Some(hash_of(&k));
                }
                let res = self.table.update_node(&k, *v, st.map(|c| if c { St::Connected } else { St::Disconnected }));
                obs = format!("{:?}", res);
            }
            Op::UpdateStatus(r, st, d) => {
                let k = self.resolve(r).ok_or_else(|| gone(op))?;
                reported = Some(hash_of(&k));
                let res = self.table.update_node_status(&k, if *st { St::Connected } else { St::Disconnected }, d.map(|i| if i { Dir::Incoming } else { Dir::Outgoing }));
                obs = format!("{:?}", res);
            }
            Op::Remove(r) => {
                let k = self.resolve(r).ok_or_else(|| gone(op))?;
                obs = format!("{}", self.table.remove(&k));
            }
            Op::EntryInsert(r, s) => {
                let k = self.resolve(r).ok_or_else(|| gone(op))?;
                let h = hash_of(&k);
                explicit_insert = Some(h);
                reported = Some(h);
                obs = match self.table.entry(&k) {
                    Entry::Absent(e) => format!("{:?}", e.insert(1, status(*s))),
                    Entry::Present(..) => "present".into(),
                    Entry::Pending(..) => "pending".into(),
                    Entry::SelfEntry => "self".into(),
                };
            }
            Op::EntryUpdate(r, st, d) => {
                let k = self.resolve(r).ok_or_else(|| gone(op))?;
                reported = Some(hash_of(&k));
                obs = match self.table.entry(&k) {
                    Entry::Present(e, _) => match e.update(if *st { St::Connected } else { St::Disconnected }, d.map(|i| if i { Dir::Incoming } else { Dir::Outgoing })) {
                        Ok(_) => "ok".into(),
                        Err(e) => format!("{:?}", e),
                    },
                    _ => "not-present".into(),
                };
            }
            Op::EntryRemove(r) => {
                let k = self.resolve(r).ok_or_else(|| gone(op))?;
                obs = match self.table.entry(&k) {
                    Entry::Present(e, _) => {
                        e.remove();
                        "removed".into()
                    }
                    Entry::Pending(e, _) => {
                        e.remove();
                        "pending-remove".into()
                    }
                    _ => "absent".into(),
                };
            }
            Op::EntryPendingUpdate(r, s) => {
                let k = self.resolve(r).ok_or_else(|| gone(op))?;
                obs = match self.table.entry(&k) {
                    Entry::Pending(e, _) => {
                        let _ = e.update(status(*s));
                        "ok".into()
                    }
                    _ => "not-pending".into(),
                };
            }
            Op::Iter => {
                obs = format!("{}", self.table.iter().count());
            }
            Op::Closest(t) => {
                let target = if *t == 0 { key_of(LOCAL) } else { bucket_key(self.cfg.hot, 3) };
                obs = format!("{}", self.table.closest_keys(&target).count());
            }
            Op::TakeApplied => {
                let mut n = 0;
                while self.table.take_applied_pending().is_some() {
                    n += 1;
                }
                obs = format!("{n}");
            }
            Op::Idle => {
                clock::advance(Duration::from_secs(self.cfg.timeout_s + 1));
                obs = "idle".into();
            }
            Op::PartIdle => {
                clock::advance(Duration::from_secs(self.cfg.timeout_s / 3));
                obs = "part-idle".into();
            }
        }
        let post = self.view();
        self.after(&pre_map, &post, reported, explicit_insert, now, false)?;
        Ok(obs)
    }

    /// Model bookkeeping + all invariants, comparing the state before and after one API call.
    fn after(
        &mut self,
        pre: &HashMap<usize, BucketView>,
        post: &[(usize, BucketView)],
        reported: Option<[u8; 32]>,
        explicit_insert: Option<[u8; 32]>,
        op_time: Instant,
        filling: bool,
    ) -> Result<(), Violation> {
        let v = |clause: &str, key: &str, detail: String| Violation { clause: clause.into(), key: key.into(), detail, replay: json!(null) };
        let step = self.step;
        let timeout = Duration::from_secs(self.cfg.timeout_s);
        let mut all_keys: HashSet<[u8; 32]> = HashSet::new();
        let empty: BucketView = (vec![], None);
        let post_map: HashMap<usize, &BucketView> = post.iter().map(|(i, b)| (*i, b)).collect();
        let mut touched: Vec<usize> = post.iter().map(|(i, _)| *i).collect();
        for i in pre.keys() {
            if !touched.contains(i) {
                touched.push(*i);
            }
        }
        touched.sort();
        for i in touched {
            let (pn, pp) = pre.get(&i).unwrap_or(&empty);
            let (nodes, pending) = post_map.get(&i).copied().unwrap_or(&empty);
            // structural clauses
            if nodes.len() > 16 {
                return Err(v("no bucket holds more than 16 nodes", "bucket>16", format!("bucket {i} holds {}", nodes.len())));
            }
            let mut seen_conn = false;
            let mut incoming = 0usize;
            for (h, _, s) in nodes {
                if *h == LOCAL {
                    return Err(v("the local id is never stored", "local-stored", format!("bucket {i}")));
                }
                if bucket_index(&LOCAL, h) != Some(i) {
                    return Err(v("every node sits in the bucket of its log2 distance", "wrong-bucket", format!("key {} in bucket {i}", hex::encode(&h[..4]))));
                }
                if !all_keys.insert(*h) {
                    return Err(v("no node id occurs twice", "duplicate", format!("key {} twice", hex::encode(&h[..4]))));
                }
                if s & 1 == 1 {
                    seen_conn = true;
                    if s & 2 == 2 {
                        incoming += 1;
                    }
                } else if seen_conn {
                    return Err(v("disconnected nodes precede connected ones", "order-groups", format!("bucket {i}: {:?}", nodes.iter().map(|n| n.2).collect::<Vec<_>>())));
                }
            }
            if let Some((h, _, _, _)) = pending {
                if !all_keys.insert(*h) {
                    return Err(v("no node id occurs twice (pending slot included)", "duplicate-pending", format!("pending key {} also stored", hex::encode(&h[..4]))));
                }
                if bucket_index(&LOCAL, h) != Some(i) {
                    return Err(v("every node sits in the bucket of its log2 distance", "wrong-bucket-pending", format!("bucket {i}")));
                }
            }
            if incoming > self.cfg.max_incoming {
                return Err(v("connected incoming nodes never exceed the per-bucket limit", "incoming-limit", format!("bucket {i}: {incoming} > {}", self.cfg.max_incoming)));
            }
            // counters exposed by the bucket agree with its contents
            let b = self.table.buckets_iter().nth(i).unwrap();
            let conn = nodes.iter().filter(|n| n.2 & 1 == 1).count();
            if b.num_connected() != conn || b.num_disconnected() != nodes.len() - conn {
                return Err(v("disconnected nodes precede connected ones", "num-connected", format!("bucket {i}: num_connected()={} but {} connected nodes", b.num_connected(), conn)));
            }

            // reference: last-report bookkeeping
            let pre_keys: HashSet<[u8; 32]> = pn.iter().map(|n| n.0).collect();
            let post_keys: HashSet<[u8; 32]> = nodes.iter().map(|n| n.0).collect();
            for h in &post_keys {
                if !pre_keys.contains(h) {
                    self.report.insert(*h, step);
                } else if reported == Some(*h) {
                    self.report.insert(*h, step);
                }
            }
            for h in &pre_keys {
                if !post_keys.contains(h) {
                    self.report.remove(h);
                }
            }
            // order by last status report within each group
            for w in nodes.windows(2) {
                if (w[0].2 & 1) == (w[1].2 & 1) {
                    let (a, b) = (self.report[&w[0].0], self.report[&w[1].0]);
                    if a > b {
                        return Err(v("each group is ordered by the time of its nodes' last status report", "order-report", format!("bucket {i}: {} (reported at step {a}) precedes {} (step {b})", hex::encode(&w[0].0[..4]), hex::encode(&w[1].0[..4]))));
                    }
                }
            }

            // pending clauses (transition invariants)
            let pre_pending = pp.map(|p| p.0);
            let post_pending = pending.map(|p| p.0);
            if let Some(pk) = pre_pending {
                let created0 = self.pending_model.get(&i).map(|m| m.1.created);
                let promoted = post_keys.contains(&pk) && !pre_keys.contains(&pk) && explicit_insert != Some(pk);
                if promoted {
                    self.count("promotions");
                    let created = created0.unwrap_or(op_time);
                    let elapsed = Instant::now().saturating_duration_since(created);
                    if elapsed < timeout {
                        return Err(v("a pending node enters only after its timeout", "promotion-early", format!("bucket {i}: promoted after {:?} < {:?}", elapsed, timeout)));
                    }
                    if pn.len() == 16 && pre_keys.len() == 16 {
                        let evicted: Vec<_> = pre_keys.difference(&post_keys).collect();
                        // the operation itself may also have removed its own target
                        let head = pn[0];
                        let head_evicted = !post_keys.contains(&head.0);
                        let full_before_promotion = evicted.len() == 1 || (evicted.len() == 2);
                        if full_before_promotion && evicted.len() == 1 {
                            if !head_evicted {
                                return Err(v("promotion evicts the least-recently-active disconnected node", "evict-not-head", format!("bucket {i}: evicted {} instead of head {}", hex::encode(&evicted[0][..4]), hex::encode(&head.0[..4]))));
                            }
                            if head.2 & 1 == 1 {
                                return Err(v("promotion evicts only a disconnected node", "evict-connected", format!("bucket {i}: evicted connected head")));
                            }
                            self.count("promotions_evicting");
                        }
                    }
                    self.pending_model.remove(&i);
                }
                if post_pending.is_none() && !promoted {
                    self.pending_model.remove(&i);
                    self.count("pending_discarded");
                }
                // head reconnected first ⇒ pending discarded
                if let (Some(r), Some(head)) = (reported, pn.first()) {
                    let not_ready = created0.map(|c| op_time.saturating_duration_since(c) < timeout).unwrap_or(false);
                    let reconnected = nodes.iter().any(|n| n.0 == r && n.2 & 1 == 1);
                    if r == head.0 && head.2 & 1 == 0 && reconnected && not_ready && post_pending.is_some() && post_pending == pre_pending {
                        return Err(v("a pending node is discarded if the head node reconnects first", "pending-kept", format!("bucket {i}")));
                    }
                    if r == head.0 && reconnected && not_ready {
                        self.count("discard_on_reconnect");
                    }
                }
            }
            if post_pending.is_some() && post_pending != pre_pending {
                self.pending_model.insert(i, (post_pending.unwrap(), PendingModel { created: op_time }));
                self.count("pending_created");
                // a pending node is only created for a full bucket whose head is disconnected
                if nodes.len() != 16 {
                    return Err(v("a pending node exists only for a full bucket", "pending-nonfull", format!("bucket {i} has {} nodes and a pending node", nodes.len())));
                }
            }
            if nodes.len() == 16 && pending.is_some() {
                self.count("full_with_pending");
            }
        }
        let _ = filling;
        Ok(())
    }

    pub fn fingerprint(&self) -> u128 {
        // ordered contents incl. pending readiness, applied queue is folded via its length proxy:
        // take_applied_pending drains it, so clone-free observation is not possible; the queue only
        // grows by promotions which are part of the history-independent contents below.
        let view = self.view();
        let ranks: Vec<Vec<u64>> = view
            .iter()
            .map(|(_, (nodes, _))| {
                // rank order of report times inside the bucket (absolute steps are irrelevant)
                let mut steps: Vec<u64> = nodes.iter().map(|n| self.report.get(&n.0).copied().unwrap_or(0)).collect();
                let mut sorted = steps.clone();
                sorted.sort();
                sorted.dedup();
                for s in steps.iter_mut() {
                    *s = sorted.iter().position(|x| x == s).unwrap() as u64;
                }
                steps
            })
            .collect();
        let pend_ready: Vec<(usize, bool)> = self
            .pending_model
            .iter()
            .map(|(i, m)| (*i, Instant::now().saturating_duration_since(m.1.created) >= Duration::from_secs(self.cfg.timeout_s)))
            .collect::<std::collections::BTreeMap<_, _>>()
            .into_iter()
            .collect();
        mc::fp_of(&(view, ranks, pend_ready, self.cfg.hot, self.cfg.max_incoming, self.cfg.timeout_s))
    }
}

fn pre_map_of(pre: &[(usize, BucketView)]) -> HashMap<usize, BucketView> {
    pre.iter().cloned().collect()
}

fn gone(op: &Op) -> Violation {
    Violation { clause: "harness".into(), key: "role-gone".into(), detail: format!("role of {:?} does not resolve (replay divergence)", op), replay: json!(null) }
}

fn short_ir(r: &InsertResult<NodeId>) -> String {
    match r {
        InsertResult::Pending { .. } => "Pending".into(),
        other => format!("{:?}", other),
    }
}

/* ------------------------------------------------------------------------------------ */
/* C08 oracle, usable on any table                                                       */
/* ------------------------------------------------------------------------------------ */

/// Compares every lookup API against the sorted full scan. Mutates the table only the way the
/// lookups themselves do (lazy promotion of pending nodes).
pub fn c08_lookups<V: Clone + Eq + std::fmt::Debug>(
    table: &mut KBucketsTable<NodeId, V>,
    local: &[u8; 32],
    targets: &[[u8; 32]],
    pred: impl Fn(&V) -> bool + Copy,
    counters: &mut BTreeMap<&'static str, u64>,
) -> Result<(), Violation> {
    let v = |clause: &str, key: String, detail: String| Violation { clause: clause.into(), key, detail, replay: json!(null) };
    for t in targets {
        let tk = key_of(*t);
        let got: Vec<[u8; 32]> = table.closest_keys(&tk).map(|k| hash_of(&k)).collect();
        let mut scan: Vec<([u8; 32], V)> = table.iter_ref().map(|e| (hash_of(e.node.key), e.node.value.clone())).collect();
        scan.sort_by(|a, b| cmp_dist(t, &a.0, &b.0));
        let want: Vec<[u8; 32]> = scan.iter().map(|s| s.0).collect();
        *counters.entry("lookups").or_insert(0) += 1;
        if got != want {
            let class = if got.len() > want.len() { "extra" } else if got.len() < want.len() { "missing" } else { "order" };
            let tb = bucket_index(local, t).map(|b| b.to_string()).unwrap_or("self".into());
            return Err(v(
                "closest iteration equals the sorted full scan",
                format!("closest_keys:{class}"),
                format!("target in bucket {tb} (low byte {:02x}): returned {} keys, table holds {}; first difference at index {}", t[31] ^ local[31], got.len(), want.len(), got.iter().zip(want.iter()).position(|(a, b)| a != b).unwrap_or(got.len().min(want.len()))),
            ));
        }
        let gv: Vec<([u8; 32], V)> = table.closest_values(&tk).map(|c| (hash_of(&c.key), c.value)).collect();
        if gv != scan {
            return Err(v("closest_values equals the sorted full scan", "closest_values".into(), format!("{} vs {}", gv.len(), scan.len())));
        }
        let gp: Vec<([u8; 32], bool, V)> = table.closest_values_predicate(&tk, pred).map(|c| (hash_of(&c.key), c.predicate_match, c.value)).collect();
        let wp: Vec<([u8; 32], bool, V)> = scan.iter().map(|s| (s.0, pred(&s.1), s.1.clone())).collect();
        if gp != wp {
            return Err(v("the predicate variant yields the same sequence with correct match flags", "closest_predicate".into(), format!("{} vs {}", gp.len(), wp.len())));
        }
        *counters.entry("lookups").or_insert(0) += 2;
    }
    Ok(())
}

pub fn c08_distances<V: Clone + Eq>(
    table: &mut KBucketsTable<NodeId, V>,
    local: &[u8; 32],
    lists: &[Vec<u64>],
    counters: &mut BTreeMap<&'static str, u64>,
) -> Result<(), Violation> {
    let v = |key: String, detail: String| Violation { clause: "lookup by distances returns exactly the nodes at those distances, up to the cap".into(), key, detail, replay: json!(null) };
    for ds in lists {
        // the property is stated for *distinct* distances (callers sort and dedup first)
        let mut dd: Vec<u64> = vec![];
        for d in ds {
            if !dd.contains(d) {
                dd.push(*d);
            }
        }
        let ds = &dd;
        for cap in [1usize, 3, 16, 1000] {
            let got: Vec<[u8; 32]> = table.nodes_by_distances(ds, cap).iter().map(|e| hash_of(e.node.key)).collect();
            // after the call (pending nodes of the requested buckets applied)
            let mut distinct: Vec<u64> = vec![];
            for d in ds {
                if !distinct.contains(d) {
                    distinct.push(*d);
                }
            }
            let mut all: Vec<[u8; 32]> = vec![];
            for d in &distinct {
                if *d >= 1 && *d <= 256 {
                    for e in table.iter_ref() {
                        let h = hash_of(e.node.key);
                        if bucket_index(local, &h) == Some(*d as usize - 1) {
                            all.push(h);
                        }
                    }
                }
            }
            *counters.entry("distance_lookups").or_insert(0) += 1;
            let gs: HashSet<_> = got.iter().collect();
            if gs.len() != got.len() {
                return Err(v("by_distances:duplicate".into(), format!("distances {:?} cap {cap}: a node returned twice", ds)));
            }
            if !got.iter().all(|g| all.contains(g)) {
                return Err(v("by_distances:foreign".into(), format!("distances {:?} cap {cap}: node at another distance returned", ds)));
            }
            let want = all.len().min(cap);
            if got.len() != want {
                return Err(v("by_distances:count".into(), format!("distances {:?} cap {cap}: {} returned, {} expected", ds, got.len(), want)));
            }
        }
    }
    Ok(())
}

/* ------------------------------------------------------------------------------------ */
/* C07 (and C08 part 2) driver                                                           */
/* ------------------------------------------------------------------------------------ */

fn seeds(max_incoming: usize) -> Vec<Vec<Op>> {
    // status codes: 0 D/out, 1 C/out, 2 D/in, 3 C/in
    let mut s: Vec<Vec<Op>> = vec![
        vec![],
        vec![Op::Fill(16, 0)],
        vec![Op::Fill(8, 0), Op::Fill(8, 1)],
        vec![Op::Fill(1, 2), Op::Fill(15, 1)],
        vec![Op::Fill(16, 1)],
        vec![Op::Fill(5, 0), Op::Fill(5, 2), Op::Fill(5, 1)],
        vec![Op::Fill(14, 0)],
        // with a pending candidate
        vec![Op::Fill(16, 0), Op::InsertOrUpdate(Role::New(0), 1, 1)],
        vec![Op::Fill(8, 0), Op::Fill(8, 1), Op::InsertOrUpdate(Role::New(0), 1, 1)],
        vec![Op::Fill(1, 2), Op::Fill(15, 1), Op::InsertOrUpdate(Role::New(0), 1, 1)],
    ];
    if max_incoming >= 2 {
        s.push(vec![Op::Fill(6, 0), Op::Fill(max_incoming.min(8) as u8, 3), Op::Fill((10 - max_incoming.min(8)) as u8, 1)]);
        s.push(vec![Op::Fill(6, 0), Op::Fill(max_incoming.min(8) as u8, 3), Op::Fill((10 - max_incoming.min(8)) as u8, 1), Op::InsertOrUpdate(Role::New(0), 1, 3)]);
    }
    s
}

const C08_TARGET_SPECS: [(usize, u64); 12] = [(255, 3), (255, 100), (254, 0), (200, 5), (9, 1), (7, 0), (2, 3), (1, 1), (1, 0), (0, 0), (128, 7), (63, 1)];

fn run_table(cfg: &TCfg, hist: &[Op], quick: bool, with_c08: bool) -> Outcome<Op> {
    let mut w = TWorld::new(cfg);
    let mut chain = vec![];
    let mut prev = None;
    let mut violation = None;
    let mut steps = 0;
    for op in cfg.seed.iter() {
        steps += 1;
        if let Err(v) = w.apply(op) {
            violation = Some(v);
            break;
        }
    }
    if violation.is_none() {
        for (i, op) in hist.iter().enumerate() {
            steps += 1;
            if i + 1 == hist.len() {
                w.counters.clear();
            }
            match w.apply(op) {
                Ok(obs) => {
                    let c = mc::chain(prev, &obs);
                    chain.push(c);
                    prev = Some(c);
                }
                Err(v) => {
                    violation = Some(v);
                    break;
                }
            }
        }
    }
    let fp = w.fingerprint();
    let enabled = if violation.is_none() { w.enabled(quick) } else { vec![] };
    let mut counters = std::mem::take(&mut w.counters);
    if violation.is_none() && with_c08 {
        // C08 part 2: lookups on this reachable content (world is discarded afterwards)
        let mut targets: Vec<[u8; 32]> = C08_TARGET_SPECS.iter().map(|(b, i)| hash_of(&bucket_key(*b, *i))).collect();
        targets.push(LOCAL);
        let r = c08_lookups(&mut w.table, &LOCAL, &targets, |v| *v == 1, &mut counters).and_then(|_| {
            c08_distances(&mut w.table, &LOCAL, &[vec![cfg.hot as u64 + 1], vec![0, 1, 2, 8, cfg.hot as u64 + 1, 256, 257], vec![cfg.hot as u64 + 1, cfg.hot as u64 + 1, 1]], &mut counters)
        });
        if let Err(v) = r {
            violation = Some(v);
        }
    }
    if let Some(v) = violation.as_mut() {
        v.replay = json!({"engine":"table","cfg":{"hot":cfg.hot,"max_incoming":cfg.max_incoming,"timeout_s":cfg.timeout_s,"seed":format!("{:?}",cfg.seed)},"history":format!("{:?}",hist)});
        v.key = format!("{}", v.key);
    }
    Outcome { fp, enabled, obs_chain: chain, violation, counters, terminal: None, steps }
}

pub fn run_c07_c08(prop: &str) {
    let with_c08 = prop == "C08";
    let mut rep = Report::new(prop, "model_checking");
    let thorough = rep.thorough();
    let mut total_states = 0u64;
    let mut total_trans = 0u64;
    let mut total_exec = 0u64;
    let mut counters: BTreeMap<&'static str, u64> = BTreeMap::new();
    let mut exhaustive = true;
    let mut caps = vec![];
    let mut configs = 0u64;
    let hots: Vec<usize> = if thorough { vec![255, 254, 128, 9] } else { vec![255] };
    let incs: Vec<usize> = if thorough { vec![0, 1, 2, 16] } else { vec![0, 2, 16] };
    // (3600 s and "never": also values a sanitising clamp would change)
    let timeouts: Vec<u64> = if thorough { vec![3600, 0, 1_000_000_000] } else { vec![3600, 0] };
    let depth: usize = std::env::var("VERIF_DEPTH").ok().and_then(|v| v.parse().ok()).unwrap_or(if thorough { 4 } else { 3 });
    let depth = if with_c08 { depth - 1 } else { depth };
    let budget_wall = mc::budget(thorough, 40.0, 1.0);
    let start = clock::wall();
    let mut found: Vec<(Violation, String)> = vec![];

    if !with_c08 {
        // service level: the configured limit reaches the table
        let (reports, svc) = crate::ssim::c07_service_level();
        rep.set("service_level_session_reports", reports);
        for v in svc {
            found.push((v, "service".into()));
        }
    }
    if with_c08 {
        // service level: the public API wrapper
        let (calls, svc) = crate::ssim::c08_service_level();
        rep.set("service_level_nodes_by_distance_calls", calls);
        for v in svc {
            found.push((v, "service".into()));
        }
    }
    if with_c08 {
        // part 1: grid over visiting-order shapes (exhaustive key spaces)
        let (lookups, sets, vio) = c08_grid(thorough);
        rep.set("grid_bit_sets", sets);
        rep.set("grid_lookups", lookups);
        for v in vio {
            found.push((v, "grid".into()));
        }
    }

    'outer: for hot in &hots {
        for inc in &incs {
            for to in &timeouts {
                for seed in seeds(*inc) {
                    if with_c08 && !thorough && *to == 0 {
                        continue;
                    }
                    // quick tier: the limit 0 (no incoming node admitted at all) with one timeout only
                    if !thorough && *inc == 0 && (*to == 0 || with_c08) {
                        continue;
                    }
                    let cfg = TCfg { hot: *hot, max_incoming: *inc, timeout_s: *to, seed: seed.clone() };
                    let d = if seed.is_empty() { depth + 1 } else { depth };
                    let remaining = budget_wall - (clock::wall() - start);
                    if remaining < 1.0 {
                        exhaustive = false;
                        caps.push(format!("wall budget exhausted before cfg hot={hot} inc={inc} timeout={to}"));
                        break 'outer;
                    }
                    let limits = Limits { max_budget: 0, max_depth: d, max_states: 3_000_000, wall_s: remaining };
                    let mut vio: Vec<(Violation, String)> = vec![];
                    let mut samples = vec![];
                    let stats = mc::explore(
                        &limits,
                        |h: &[Op]| run_table(&cfg, h, !thorough, with_c08),
                        |v, h| vio.push((v, format!("{:?}", h))),
                        |h, _o| samples.push(format!("{:?}", h)),
                    );
                    configs += 1;
                    total_states += stats.states;
                    total_trans += stats.transitions;
                    total_exec += stats.executions;
                    for (k, v) in stats.counters {
                        *counters.entry(k).or_insert(0) += v;
                    }
                    if !stats.exhaustive {
                        exhaustive = false;
                        caps.push(stats.cap.unwrap_or_default());
                    }
                    for s in samples.into_iter().take(1) {
                        rep.sample(json!({"hot_bucket":hot,"max_incoming":inc,"pending_timeout_s":to,"seed":format!("{:?}",seed),"history":s}));
                    }
                    found.extend(vio);
                }
            }
        }
    }
    rep.set("states", total_states);
    rep.set("transitions", total_trans);
    rep.set("traces_validated_against_impl", total_exec);
    rep.set("configurations", configs);
    rep.set("depth_from_seed", depth as u64);
    rep.set("exhaustive", exhaustive);
    if !caps.is_empty() {
        rep.set("caps", json!(caps));
    }
    for (k, v) in &counters {
        rep.set(&format!("activations_{k}"), *v);
    }
    rep.set("evaluations", total_exec);
    rep.set("distinct_nontrivial", total_states);
    rep.set("rule", "explicit-state BFS over operation histories on the real KBucketsTable (state = history, re-executed from an empty table; fingerprint = ordered bucket contents incl. status, pending key/status/readiness, report-rank order); every clause evaluated after every API call");
    rep.assume("keys are crafted with Key::new_raw (hash chosen freely); values are u8 tags");
    rep.assume("time is the harness-owned monotonic clock; pending timeouts 60 s (elapses by Idle 61 s), 0 and (thorough) never");
    for (mut v, h) in found {
        if v.replay.is_null() {
            v.replay = json!({"engine":"table","history":h});
        }
        rep.violation(v);
    }
    if with_c08 {
        if counters.get("lookups").copied().unwrap_or(0) == 0 {
            rep.vacuous("C08 vacuous: no lookups");
        }
    } else {
        for k in ["promotions", "pending_created", "full_with_pending", "discard_on_reconnect", "promotions_evicting"] {
            if counters.get(k).copied().unwrap_or(0) == 0 {
                rep.vacuous(&format!("C07 vacuous: activation counter {k} = 0"));
            }
        }
    }
    rep.finish();
}

/// C08 part 1: for each set S of bit positions, the key space is every key that differs from the
/// local key only in bits of S; the table holds every key but the local one (≤ 16 per bucket),
/// the targets are all keys of the space plus two outside.
fn c08_grid(thorough: bool) -> (u64, u64, Vec<Violation>) {
    let positions: Vec<usize> = vec![0, 1, 2, 3, 7, 8, 127, 128, 254, 255];
    let maxk = if thorough { 5 } else { 4 };
    let mut sets: Vec<Vec<usize>> = vec![];
    for mask in 1u32..(1 << positions.len()) {
        if (mask.count_ones() as usize) <= maxk {
            sets.push((0..positions.len()).filter(|i| mask & (1 << i) != 0).map(|i| positions[i]).collect());
        }
    }
    let locals: Vec<[u8; 32]> = vec![[0u8; 32], LOCAL, {
        let mut l = [0xffu8; 32];
        l[0] = 0x7f;
        l[31] = 0xfe;
        l
    }];
    let results = mc::par_map(&sets, |s| {
        let mut lookups = 0u64;
        let mut counters = BTreeMap::new();
        let mut vio = None;
        for local in &locals {
            // key space
            let n = s.len();
            let mut space: Vec<[u8; 32]> = vec![];
            for m in 0..(1u32 << n) {
                let mut d = [0u8; 32];
                for (j, bit) in s.iter().enumerate() {
                    if m & (1 << j) != 0 {
                        d[31 - bit / 8] |= 1 << (bit % 8);
                    }
                }
                space.push(xor(local, &d));
            }
            let mut table: KBucketsTable<NodeId, u8> = KBucketsTable::new(key_of(*local), Duration::from_secs(60), 16, None, None);
            for (i, h) in space.iter().enumerate() {
                if h == local {
                    continue;
                }
                let r = table.insert_or_update(&key_of(*h), (i % 3) as u8, status((i % 4) as u8 | 1));
                if !matches!(r, InsertResult::Inserted) {
                    // a bucket can hold 2^j ≤ 16 keys of this space, so every insert must succeed
                    return (0, Some(Violation { clause: "harness".into(), key: "grid-insert".into(), detail: format!("{:?}", r), replay: json!(null) }));
                }
            }
            let mut targets = space.clone();
            let mut o1 = *local;
            o1[15] ^= 0x10;
            let mut o2 = *local;
            o2[0] ^= 0x80;
            o2[31] ^= 0x01;
            targets.push(o1);
            targets.push(o2);
            if let Err(mut v) = c08_lookups(&mut table, local, &targets, |v| *v == 1, &mut counters) {
                v.replay = json!({"engine":"table","grid_bits":s,"local":hex::encode(local)});
                vio = Some(v);
                break;
            }
            let hi = *s.last().unwrap() as u64 + 1;
            let lists: Vec<Vec<u64>> = vec![vec![0], vec![1], vec![1, 2], vec![hi], vec![hi, hi + 1], vec![0, 1, 2, hi, 256, 257, u64::MAX], vec![hi, 1, hi]];
            if let Err(mut v) = c08_distances(&mut table, local, &lists, &mut counters) {
                v.replay = json!({"engine":"table","grid_bits":s,"local":hex::encode(local)});
                vio = Some(v);
                break;
            }
        }
        lookups += counters.get("lookups").copied().unwrap_or(0) + counters.get("distance_lookups").copied().unwrap_or(0);
        (lookups, vio)
    });
    let mut lookups = 0;
    let mut vio = vec![];
    for (l, v) in results {
        lookups += l;
        if let Some(v) = v {
            vio.push(v);
        }
    }
    (lookups, sets.len() as u64, vio)
}

/* ------------------------------------------------------------------------------------ */
/* C16: IP-diversity limits                                                              */
/* ------------------------------------------------------------------------------------ */

#[derive(Clone, Debug, PartialEq, Eq, Hash)]
pub enum IpOp {
    /// seed: n nodes of subnet s (0 = A) into `buckets` distinct buckets, connected
    Seed(u8, u8),
    /// seed: fill bucket 255 with 16 nodes from 8 other subnets (2 each), first one disconnected
    SeedFull,
    /// insert record (subnet, variant) under a fresh key into bucket class c (0 same as last A, 1 other, 2 the full one)
    Insert(u8, u8, u8),
    /// update the record of node role r to subnet s (same key, higher seq)
    Update(u8, u8),
    Status(u8, bool),
    Remove(u8),
    Idle,
    Iter,
    /// offer the node in role r again (same key, its current record, connected)
    Reoffer(u8),
    /// seed: a table whose buckets admit one incoming peer each; bucket 100 holds a connected and
    /// a disconnected incoming peer (other subnets) — role 7 is the disconnected one
    SeedIncoming,
}

pub struct IpWorld {
    table: KBucketsTable<NodeId, Enr>,
    /// every (key hash → current record) the harness believes may be in the table
    next_key: u64,
    next_bucket: usize,
    last_a_bucket: usize,
    /// live keys in insertion order with their subnet
    live: Vec<([u8; 32], u8)>,
    counters: BTreeMap<&'static str, u64>,
    /// the disconnected incoming peer of `SeedIncoming`
    incoming_q: Option<[u8; 32]>,
    rec_seq: u64,
}

/// Records are bound to exactly one key hash: one signing key per crafted table key.
fn ip_record(keyno: u64, subnet: u8, seq: u64) -> Enr {
    thread_local! {
        static CACHE: std::cell::RefCell<HashMap<(u64, u8, u64), Enr>> = std::cell::RefCell::new(HashMap::new());
    }
    CACHE.with(|c| c.borrow_mut().entry((keyno, subnet, seq)).or_insert_with(|| ip_record_build(keyno, subnet, seq)).clone())
}

fn ip_record_build(keyno: u64, subnet: u8, seq: u64) -> Enr {
    let k = util::key(2000 + keyno as u16);
    let ip4 = match subnet {
        0 => Some((std::net::Ipv4Addr::new(10, 0, 0, (keyno % 250) as u8 + 1), 9000)),
        1 => Some((std::net::Ipv4Addr::new(10, 0, 1, (keyno % 250) as u8 + 1), 9000)),
        2 => Some((std::net::Ipv4Addr::new(10, 0, 2, (keyno % 250) as u8 + 1), 9000)),
        3 => None,
        n => Some((std::net::Ipv4Addr::new(172, 16, n, (keyno % 250) as u8 + 1), 9000)),
    };
    let ip6 = if subnet == 3 { Some((std::net::Ipv6Addr::new(0x2001, 0xdb8, 0, 0, 0, 0, 0, keyno as u16 + 1), 9000)) } else { None };
    util::enr(&k, &util::EnrSpec { seq, ip4, ip6, pad: 0 })
}

impl IpWorld {
    fn new() -> Self {
        let table = KBucketsTable::new(key_of(LOCAL), Duration::from_secs(60), 16, Some(discv5::verif::ip_table_filter()), Some(discv5::verif::ip_bucket_filter()));
        IpWorld { table, next_key: 0, next_bucket: 100, last_a_bucket: 100, live: vec![], counters: BTreeMap::new(), rec_seq: 1, incoming_q: None }
    }

    fn fresh_in_bucket(&mut self, b: usize) -> (Key<NodeId>, u64) {
        let n = self.next_key;
        self.next_key += 1;
        (bucket_key(b, n + 1), n)
    }

    fn check(&mut self) -> Result<(), Violation> {
        let v = |clause: &str, key: &str, detail: String| Violation { clause: clause.into(), key: key.into(), detail, replay: json!(null) };
        let mut per_table: HashMap<[u8; 3], usize> = HashMap::new();
        let mut max_table = 0;
        for (i, b) in self.table.buckets_iter().enumerate() {
            let mut per_bucket: HashMap<[u8; 3], usize> = HashMap::new();
            for n in b.iter() {
                if let Some(ip) = n.value.ip4() {
                    let o = ip.octets();
                    let s = [o[0], o[1], o[2]];
                    *per_bucket.entry(s).or_insert(0) += 1;
                    *per_table.entry(s).or_insert(0) += 1;
                }
            }
            for (s, c) in per_bucket {
                if c > 2 {
                    return Err(v("a bucket never holds more than 2 nodes sharing a /24", "bucket-limit", format!("bucket {i}: {c} nodes in {:?}/24", s)));
                }
            }
        }
        for (s, c) in &per_table {
            max_table = max_table.max(*c);
            if *c > 10 {
                return Err(v("the table never holds more than 10 nodes sharing a /24", "table-limit", format!("{c} nodes in {:?}/24", s)));
            }
        }
        if max_table == 10 {
            *self.counters.entry("at_table_limit").or_insert(0) += 1;
        }
        Ok(())
    }

    fn role(&self, r: u8) -> Option<([u8; 32], u8)> {
        // 0: first live A node, 1: last live A node, 2: pending node of bucket 255, 3: head of bucket 255, 4: first non-A node
        match r {
            0 => self.live.iter().find(|l| l.1 == 0).copied(),
            1 => self.live.iter().rev().find(|l| l.1 == 0).copied(),
            2 => self.table.buckets_iter().nth(255).and_then(|b| b.pending().map(|p| hash_of(p.verif_key()))).map(|h| (h, self.live.iter().find(|l| l.0 == h).map(|l| l.1).unwrap_or(0))),
            3 => self.table.buckets_iter().nth(255).and_then(|b| b.iter().next().map(|n| hash_of(&n.key))).map(|h| (h, 9)),
            // 5: second entry of bucket 255, 6: last entry of bucket 255
            7 => self.incoming_q.map(|h| (h, 9)),
            5 => self.table.buckets_iter().nth(255).and_then(|b| b.iter().nth(1).map(|n| hash_of(&n.key))).map(|h| (h, 9)),
            6 => self.table.buckets_iter().nth(255).and_then(|b| if b.num_entries() > 2 { b.iter().last().map(|n| hash_of(&n.key)) } else { None }).map(|h| (h, 9)),
            _ => self.live.iter().find(|l| l.1 != 0 && l.1 < 4).copied(),
        }
    }

    fn apply(&mut self, op: &IpOp) -> Result<String, Violation> {
        let pend_before: Vec<[u8; 32]> = self.table.buckets_iter().filter_map(|b| b.pending().map(|p| hash_of(p.verif_key()))).collect();
        let obs;
        match op {
            IpOp::Seed(n, buckets) => {
                let mut r = vec![];
                for i in 0..*n {
                    let b = 100 + (i % buckets) as usize;
                    self.last_a_bucket = b;
                    self.next_bucket = 100 + *buckets as usize;
                    let (k, no) = self.fresh_in_bucket(b);
                    let res = self.table.insert_or_update(&k, ip_record(no, 0, 1), status(1));
                    if matches!(res, InsertResult::Inserted) {
                        self.live.push((hash_of(&k), 0));
                    }
                    r.push(short_ir(&res));
                }
                obs = format!("{:?}", r);
            }
            IpOp::SeedIncoming => {
                self.table = KBucketsTable::new(key_of(LOCAL), Duration::from_secs(60), 1, Some(discv5::verif::ip_table_filter()), Some(discv5::verif::ip_bucket_filter()));
                self.last_a_bucket = 100;
                let mut r = vec![];
                for (subnet, st) in [(5u8, 3u8), (6, 2)] {
                    let (k, no) = self.fresh_in_bucket(100);
                    let res = self.table.insert_or_update(&k, ip_record(no, subnet, 1), status(st));
                    if st == 2 {
                        self.incoming_q = Some(hash_of(&k));
                    }
                    r.push(short_ir(&res));
                }
                obs = format!("{:?}", r);
            }
            IpOp::SeedFull => {
                let mut r = vec![];
                for i in 0..16u8 {
                    let (k, no) = self.fresh_in_bucket(255);
                    let st = if i == 0 { 0 } else { 1 };
                    let res = self.table.insert_or_update(&k, ip_record(no, 10 + i / 2, 1), status(st));
                    if matches!(res, InsertResult::Inserted) {
                        self.live.push((hash_of(&k), 10 + i / 2));
                    }
                    r.push(short_ir(&res));
                }
                obs = format!("{:?}", r);
            }
            IpOp::Insert(subnet, st, class) => {
                let b = match class {
                    0 => self.last_a_bucket,
                    1 => {
                        self.next_bucket += 1;
                        self.next_bucket
                    }
                    _ => 255,
                };
                let (k, no) = self.fresh_in_bucket(b);
                let res = self.table.insert_or_update(&k, ip_record(no, *subnet, 1), status(*st));
                match &res {
                    InsertResult::Inserted | InsertResult::Pending { .. } => {
                        self.live.push((hash_of(&k), *subnet));
                        if *subnet == 0 && *class != 2 {
                            self.last_a_bucket = b;
                        }
                    }
                    InsertResult::Failed(_) => {
                        *self.counters.entry("refusals").or_insert(0) += 1;
                        if *subnet == 3 && matches!(res, InsertResult::Failed(discv5::kbucket::FailureReason::BucketFilter) | InsertResult::Failed(discv5::kbucket::FailureReason::TableFilter)) {
                            return Err(Violation { clause: "nodes without an IPv4 address are unaffected".into(), key: "noip-refused".into(), detail: format!("{:?}", res), replay: json!(null) });
                        }
                        // a refused candidate is not in the table afterwards
                        let h = hash_of(&k);
                        let present = self.table.iter_ref().any(|e| hash_of(e.node.key) == h)
                            || self.table.buckets_iter().any(|b| b.pending().map(|p| hash_of(p.verif_key()) == h).unwrap_or(false));
                        if present {
                            return Err(Violation { clause: "a refused change leaves the candidate out of the table".into(), key: "refused-insert-present".into(), detail: format!("{:?}", res), replay: json!(null) });
                        }
                    }
                    _ => {}
                }
                obs = short_ir(&res);
            }
            IpOp::Update(r, subnet) => {
                if let Some((h, _)) = self.role(*r) {
                    self.rec_seq += 1;
                    // the record keeps its signing key: find the key number from the hash
                    let no = key_number(&h);
                    let res = self.table.update_node(&key_of(h), ip_record(no, *subnet, self.rec_seq), None);
                    if matches!(res, discv5::kbucket::UpdateResult::Failed(_)) {
                        *self.counters.entry("refusals").or_insert(0) += 1;
                        self.live.retain(|l| l.0 != h);
                    } else if let Some(l) = self.live.iter_mut().find(|l| l.0 == h) {
                        l.1 = *subnet;
                    }
                    obs = format!("{:?}", res);
                } else {
                    obs = "norole".into();
                }
            }
            IpOp::Status(r, c) => {
                if let Some((h, _)) = self.role(*r) {
                    let res = self.table.update_node_status(&key_of(h), if *c { St::Connected } else { St::Disconnected }, None);
                    obs = format!("{:?}", res);
                } else {
                    obs = "norole".into();
                }
            }
            IpOp::Remove(r) => {
                if let Some((h, _)) = self.role(*r) {
                    let res = self.table.remove(&key_of(h));
                    self.live.retain(|l| l.0 != h || !res);
                    obs = format!("{res}");
                } else {
                    obs = "norole".into();
                }
            }
            IpOp::Reoffer(r) => {
                if let Some((h, _)) = self.role(*r) {
                    // its current record, wherever it is held (entry or pending slot)
                    let cur: Option<Enr> = self
                        .table
                        .buckets_iter()
                        .find_map(|b| b.iter().find(|n| hash_of(&n.key) == h).map(|n| n.value.clone()).or_else(|| b.pending().filter(|p| hash_of(p.verif_key()) == h).map(|p| p.value().clone())));
                    if let Some(rec) = cur {
                        let res = self.table.insert_or_update(&key_of(h), rec, status(1));
                        if matches!(res, InsertResult::Failed(_)) {
                            *self.counters.entry("refusals").or_insert(0) += 1;
                        }
                        let present = self.table.iter_ref().any(|e| hash_of(e.node.key) == h)
                            || self.table.buckets_iter().any(|b| b.pending().map(|p| hash_of(p.verif_key()) == h).unwrap_or(false));
                        if !present {
                            self.live.retain(|l| l.0 != h);
                        }
                        obs = short_ir(&res);
                    } else {
                        obs = "gone".into();
                    }
                } else {
                    obs = "norole".into();
                }
            }
            IpOp::Idle => {
                clock::advance(Duration::from_secs(61));
                obs = "idle".into();
            }
            IpOp::Iter => {
                let n = self.table.iter().count();
                while let Some(a) = self.table.take_applied_pending() {
                    if let Some(ev) = a.evicted {
                        let h = hash_of(&ev.key);
                        self.live.retain(|l| l.0 != h);
                    }
                }
                obs = format!("{n}");
            }
        }
        for h in pend_before {
            if self.table.iter_ref().any(|e| hash_of(e.node.key) == h) {
                *self.counters.entry("promotions").or_insert(0) += 1;
            }
        }
        self.check()?;
        Ok(obs)
    }

    fn fingerprint(&self) -> u128 {
        let now = Instant::now();
        let view: Vec<(usize, Vec<([u8; 32], Option<[u8; 4]>, u8)>, Option<([u8; 32], Option<[u8; 4]>, bool)>)> = self
            .table
            .buckets_iter()
            .enumerate()
            .filter(|(_, b)| b.num_entries() > 0 || b.pending().is_some())
            .map(|(i, b)| {
                (
                    i,
                    b.iter().map(|n| (hash_of(&n.key), n.value.ip4().map(|i| i.octets()), scode(&n.status))).collect(),
                    b.pending().map(|p| (hash_of(p.verif_key()), p.value().ip4().map(|i| i.octets()), p.verif_ready_at() <= now)),
                )
            })
            .collect();
        mc::fp_of(&(view, self.last_a_bucket, self.next_bucket))
    }

    fn enabled(&self) -> Vec<(IpOp, u32)> {
        let mut ops = vec![];
        for class in 0..3u8 {
            for subnet in [0u8, 1, 3] {
                for st in [1u8, 0] {
                    if st == 0 && (class == 2 || subnet != 0) {
                        continue;
                    }
                    ops.push(IpOp::Insert(subnet, st, class));
                }
            }
        }
        for r in [0u8, 1, 2, 4, 3, 5] {
            if let Some((_, cur)) = self.role(r) {
                for s in [0u8, 1] {
                    if (r == 3 || r == 5) && s != 0 {
                        continue; // members of the full bucket only move into subnet A
                    }
                    if s != cur || r == 2 {
                        ops.push(IpOp::Update(r, s));
                    }
                }
            }
        }
        for r in [0u8, 2, 3, 7] {
            if self.role(r).is_some() {
                ops.push(IpOp::Status(r, true));
                ops.push(IpOp::Status(r, false));
            }
        }
        for r in [0u8, 1, 3, 6] {
            if self.role(r).is_some() {
                ops.push(IpOp::Remove(r));
            }
        }
        for r in [2u8, 0] {
            if self.role(r).is_some() {
                ops.push(IpOp::Reoffer(r));
            }
        }
        ops.push(IpOp::Idle);
        ops.push(IpOp::Iter);
        ops.into_iter().map(|o| (o, 0)).collect()
    }
}

fn key_number(h: &[u8; 32]) -> u64 {
    // bucket_key(b, n + 1): the low 8 bytes of (hash ^ LOCAL) hold n + 1 (plus the bucket bit if b < 64)
    let d = xor(h, &LOCAL);
    let mut low = [0u8; 8];
    low.copy_from_slice(&d[24..]);
    u64::from_be_bytes(low) - 1
}

fn run_ip(seed: &[IpOp], hist: &[IpOp]) -> Outcome<IpOp> {
    let mut w = IpWorld::new();
    let mut chain = vec![];
    let mut prev = None;
    let mut violation = None;
    let mut steps = 0;
    let total = seed.len() + hist.len();
    for (i, op) in seed.iter().chain(hist.iter()).enumerate() {
        steps += 1;
        if i + 1 == total && !hist.is_empty() {
            w.counters.clear();
        }
        match w.apply(op) {
            Ok(obs) => {
                if steps > seed.len() as u64 {
                    let c = mc::chain(prev, &obs);
                    chain.push(c);
                    prev = Some(c);
                }
            }
            Err(v) => {
                violation = Some(v);
                break;
            }
        }
    }
    if let Some(v) = violation.as_mut() {
        v.replay = json!({"engine":"table-ip","seed":format!("{:?}",seed),"history":format!("{:?}",hist)});
    }
    let fp = w.fingerprint();
    let enabled = if violation.is_none() { w.enabled() } else { vec![] };
    Outcome { fp, enabled, obs_chain: chain, violation, counters: w.counters, terminal: None, steps }
}

pub fn run_c16() {
    let mut rep = Report::new("C16", "model_checking");
    let thorough = rep.thorough();
    let depth: usize = std::env::var("VERIF_DEPTH").ok().and_then(|v| v.parse().ok()).unwrap_or(if thorough { 6 } else { 5 });
    let seeds: Vec<Vec<IpOp>> = vec![
        vec![IpOp::Seed(8, 5)],
        vec![IpOp::Seed(9, 5)],
        vec![IpOp::Seed(10, 5)],
        vec![IpOp::SeedFull, IpOp::Seed(9, 5)],
        vec![IpOp::SeedFull, IpOp::Seed(9, 5), IpOp::Insert(0, 1, 2)],
        vec![IpOp::SeedFull, IpOp::Seed(8, 5), IpOp::Insert(0, 1, 2)],
        // subnet dynamics inside one full bucket with a pending candidate, no A nodes elsewhere
        vec![IpOp::SeedFull, IpOp::Insert(0, 1, 2)],
        // a bucket at its incoming limit: a refused status change must leave the /24 limit in force
        vec![IpOp::SeedIncoming],
    ];
    let budget = mc::budget(thorough, 40.0, 1.0);
    let start = clock::wall();
    let mut states = 0;
    let mut trans = 0;
    let mut execs = 0;
    let mut counters: BTreeMap<&'static str, u64> = BTreeMap::new();
    let mut exhaustive = true;
    let mut caps = vec![];
    let mut found = vec![];
    for seed in &seeds {
        let remaining = budget - (clock::wall() - start);
        if remaining < 1.0 {
            exhaustive = false;
            caps.push("wall budget".to_string());
            break;
        }
        let limits = Limits { max_budget: 0, max_depth: depth, max_states: 2_000_000, wall_s: remaining };
        let mut vio = vec![];
        let mut samples = vec![];
        let stats = mc::explore(&limits, |h: &[IpOp]| run_ip(seed, h), |v, _h| vio.push(v), |h, _| samples.push(format!("{:?}", h)));
        states += stats.states;
        trans += stats.transitions;
        execs += stats.executions;
        for (k, v) in stats.counters {
            *counters.entry(k).or_insert(0) += v;
        }
        if !stats.exhaustive {
            exhaustive = false;
            caps.push(stats.cap.unwrap_or_default());
        }
        if let Some(s) = samples.into_iter().next() {
            rep.sample(json!({"seed":format!("{:?}",seed),"history":s}));
        }
        found.extend(vio);
    }
    rep.set("states", states);
    rep.set("transitions", trans);
    rep.set("traces_validated_against_impl", execs);
    rep.set("depth_from_seed", depth as u64);
    rep.set("exhaustive", exhaustive);
    if !caps.is_empty() {
        rep.set("caps", json!(caps));
    }
    rep.set("evaluations", execs);
    rep.set("distinct_nontrivial", states);
    for (k, v) in &counters {
        rep.set(&format!("activations_{k}"), *v);
    }
    rep.set("rule", "explicit-state BFS over operation histories on the real KBucketsTable<NodeId, Enr> built with the real IpTableFilter/IpBucketFilter; every record is signed by a key bound to exactly one table key; oracle over buckets_iter() after every call");
    // service level: `ip_limit()` in every listen mode
    let (offered, svc) = crate::ssim::c16_service_level();
    rep.set("service_level_records_offered", offered);
    found.extend(svc);
    let (refreshed, svc2) = crate::ssim::c16_service_pending();
    rep.set("service_level_pending_records_refreshed", refreshed);
    found.extend(svc2);
    for v in found {
        rep.violation(v);
    }
    for k in ["refusals", "promotions", "at_table_limit"] {
        if counters.get(k).copied().unwrap_or(0) == 0 {
            rep.vacuous(&format!("C16 vacuous: {k} = 0"));
        }
    }
    rep.finish();
}
