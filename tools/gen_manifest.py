#!/usr/bin/env python3
"""Regenerates /verif/MANIFEST.json from the table below (single source of truth)."""
import json, subprocess
props = [json.loads(l) for l in open('/verif/properties.jsonl')]
ids = [p['id'] for p in props]

ENGINES = [
 {"name":"codec","path":"harness/src/codec.rs","serves_properties":["C05","C06"],"kind_free_text":"bounded-exhaustive enumeration of a finite input alphabet against independent reference encoder/decoder"},
 {"name":"table","path":"harness/src/table.rs","serves_properties":["C07","C08","C16"],"kind_free_text":"explicit-state BFS over operation histories on the real KBucketsTable (history replay, canonical fingerprints)"},
]

# id -> (category, technique, engine, text, note, design_ref)
CHECKS = {
 "C05": ("exploration","bounded-exhaustive enumeration of a finite datagram alphabet, differential against an independent reference codec","codec",
   "Every datagram of a stated finite alphabet (packet grid; per shape all prefixes, all values of each unmasked header byte, bit flips, kind x auth-size grid, handshake size grid, all lengths 0..1400) is decoded by the real Packet::decode and by an independent reference decoder and the results must agree; encode must equal an independent reference encoder byte for byte. Exhaustive over the alphabet, not over all 2^(8*1400) strings.",
   "Trusts aes/ctr crates (reference masking), enr crate for record validity; CTR counter width not decided (see DESIGN.md).","3/C05"),
 "C06": ("exploration","bounded-exhaustive enumeration of a finite message/byte alphabet against an independent RLP writer plus accept=>re-encode consistency oracle","codec",
   "All messages of a stated grid round-trip and equal an independent RLP writer; all prefixes, tails, byte substitutions, deletions/insertions of representative encodings and an explicit clause list must be rejected or be the exact encoding of what they decode to.",
   "Trusts the enr crate for record validity and alloy-rlp primitives used by the implementation; reference writer is ~40 lines.","3/C06"),
 "C07": ("model_checking","explicit-state BFS over operation histories on the real routing table (history replay, deduplicated by canonical fingerprint), invariants after every call","table",
   "All operation sequences up to the stated depth from the empty table and from legally built seeds (full / nearly full buckets in several status splits, with and without a pending candidate) over role-based key alphabets, incoming limits and pending timeouts; every structural and pending-slot clause is evaluated after every API call on the real KBucketsTable.",
   "Keys crafted with Key::new_raw; harness-owned clock; depth bound stated in evidence.","3/C07"),
 "C08": ("model_checking","exhaustive grid over visiting-order shapes plus the same differential oracle in every state of the C07-style BFS","table",
   "closest_keys / closest_values / closest_values_predicate must equal the sorted full scan and nodes_by_distances must return exactly the nodes at the requested distinct distances up to the cap: (1) for every set of <=4 (thorough 5) bit positions from {0,1,2,3,7,8,127,128,254,255}, three local ids, the full key space over those bits as table content and every key of the space as target; (2) in every state reached by the operation-history BFS.",
   "Differential oracle: iter_ref() full scan sorted by XOR distance computed by the harness.","3/C08"),
 "C16": ("model_checking","explicit-state BFS over operation histories on the real table with the real IP filters; limits checked in every state","table",
   "All operation sequences up to the stated depth from seeds with 8/9/10 nodes of the contended /24 and a full bucket with/without a pending candidate: inserts into same/other/full bucket, record updates moving nodes between subnets (stored and pending), status changes, removals, time passing, iteration; per-bucket (2) and per-table (10) /24 limits evaluated after every call.",
   "Every record is signed by a key bound to exactly one crafted table key; harness-owned clock.","3/C16"),
}

NA_REASON = "check not built yet (work in progress; see DESIGN.md for the planned engine)"

def main():
    commits = subprocess.run(["git","-C","/repo","log","--format=%h %s"],capture_output=True,text=True).stdout.splitlines()
    hook_commits = [c.split()[0] for c in commits if not c.split(' ',1)[1].startswith('fix:') and 'snapshot' not in c]
    m = {"version":1,
      "setup_cmd":"./check build",
      "hooks":{"guard":"verif-hooks","enable":"cargo feature: the harness crate depends on discv5 = { path = \"/repo\", features = [\"verif-hooks\"] }; every check rebuilds it from /repo's working tree",
               "baseline_off_cmd":"cd /repo && cargo test --workspace --no-fail-fast --offline","source_commits":hook_commits,"add_only":True},
      "engines":ENGINES,"checks":[],
      "notes":"All checks: ./check <ID> quick|thorough (exit 0 holds, 1 violation, 2 machinery error). Replay: ./check replay <path>. Known/fixed findings: known_findings.json. See DESIGN.md.",
      "not_applicable":[]}
    for i in ids:
        if i in CHECKS:
            cat,tech,eng,text,note,ref = CHECKS[i]
            m["checks"].append({"property_id":i,"quick_cmd":f"./check {i} quick","thorough_cmd":f"./check {i} thorough","evidence_file":f"/verif/evidence/{i}.json",
                "replay_cmd_template":"./check replay {path}","engine":eng,
                "level_claimed":{"category":cat,"text":text,"design_ref":ref},"level_note":note,"technique":tech})
        else:
            m["not_applicable"].append({"property_id":i,"reason":NA_REASON})
    json.dump(m,open('/verif/MANIFEST.json','w'),indent=1)
    import jsonschema
    jsonschema.validate(m,json.load(open('/root/.vp/MANIFEST.schema.json')))
    print("manifest ok:",len(m["checks"]),"checks,",len(m["not_applicable"]),"not applicable")
main()
