fn main() { println!("hello"); }
