//! Runtime seam: one fresh current-thread tokio runtime per execution; the `block_on` future
//! only ever yields (never awaits anything unready), so no real time passes.
use std::future::Future;

pub fn run<F: Future>(f: F) -> F::Output {
    let rt = tokio::runtime::Builder::new_current_thread()
        .enable_io()
        .enable_time()
        // `tokio::select!` polls its branches starting from a random one; with a fixed seed the
        // order is a deterministic function of the execution, so replays cannot diverge when two
        // timers of the subject fall due at the same instant
        .rng_seed(tokio::runtime::RngSeed::from_bytes(b"discv5-verif"))
        .build()
        .expect("runtime");
    let out = rt.block_on(f);
    drop(rt);
    crate::mc::check_subject_panic();
    out
}

/// Lets every spawned task run until it blocks again.
pub async fn settle() {
    for _ in 0..6 {
        tokio::task::yield_now().await;
    }
    // a spawned task of the crate under test that panicked meanwhile ends this execution
    crate::mc::check_subject_panic();
}
