//! Engine `hsim`: real `Handler`s on virtual sockets, closed by a harness-owned application,
//! network, clock and (optionally) attacker. One environment event per transition.
use crate::clock;
use crate::mc::{self, Violation};
use crate::rt;
use crate::util;
use discv5::enr::{CombinedKey, NodeId};
use discv5::packet::PacketKind;
use discv5::verif::{self as v, HandlerIn, HandlerOut, HandlerSnapshot, VPacket, VirtualWire};
use discv5::{ConfigBuilder, Enr, IpMode, ListenConfig, NodeAddress, NodeContact};
use parking_lot::RwLock;
use serde_json::json;
use std::collections::{BTreeMap, BTreeSet, HashMap};
use std::net::SocketAddr;
use std::sync::Arc;
use std::time::{Duration, Instant};
use tokio::sync::{mpsc, oneshot};

// deliberately not the default (1 s): a configured value that never reaches the handler must show
pub const REQUEST_TIMEOUT: Duration = Duration::from_millis(1500);

/* ------------------------------------------------------------------------------------ */
/* Configuration and events                                                              */
/* ------------------------------------------------------------------------------------ */

#[derive(Clone, Debug, PartialEq, Eq, Hash)]
pub enum Body {
    Ping,
    /// answered in `n` NODES packets
    Find(u8),
    Talk,
    /// a TALK request whose answer fills the datagram to exactly the 1280-byte limit
    TalkMax,
}

#[derive(Clone, Debug, PartialEq, Eq, Hash)]
pub struct Req {
    pub from: usize,
    pub to: usize,
    pub body: Body,
    /// contact carries the peer's record?
    pub with_enr: bool,
}

#[derive(Clone, Debug)]
pub struct HCfg {
    pub nodes: usize,
    pub workload: Vec<Req>,
    pub retries: u8,
    pub session_timeout: Option<Duration>,
    pub session_capacity: Option<usize>,
    pub allow_drop: bool,
    pub allow_dup: bool,
    pub allow_reorder: bool,
    pub allow_restart: Vec<usize>,
    pub allow_late_way: bool,
    pub allow_early_timer: bool,
    pub force_nonce: bool,
    pub packet_filter: bool,
    /// a peer that is not a real handler (played by a driver): requests with `to >= nodes` go there
    pub ghost: Option<(Enr, SocketAddr, bool)>,
    /// sequence number of the record the application "knows" for node 1 (who-are-you answers)
    pub known_seq: u64,
    /// packet-filter quotas (ip, node, total): n tokens every n seconds
    pub rate_limits: Option<(u64, u64, u64)>,
    /// handlers listen on IPv6 (single stack) instead of IPv4
    pub ipv6: bool,
    /// when the application answers who-are-you queries and inbound requests is free (like the
    /// timing of submissions): only departures from the network / timer default cost a deviation
    pub free_app_timing: bool,
    /// properties whose clauses are evaluated in this world (empty: all). A violated clause of
    /// another property must not end the search for the property being decided.
    pub focus: Vec<String>,
    /// further records the applications know (returned with a truthful who-are-you answer)
    pub extra_known: Vec<Enr>,
}

impl Default for HCfg {
    fn default() -> Self {
        HCfg { nodes: 2, workload: vec![], retries: 1, session_timeout: None, session_capacity: None, allow_drop: true, allow_dup: true, allow_reorder: true, allow_restart: vec![], allow_late_way: true, allow_early_timer: true, force_nonce: false, packet_filter: false, ghost: None, known_seq: 1, rate_limits: None, ipv6: false, free_app_timing: false, focus: vec![], extra_known: vec![] }
    }
}

#[derive(Clone, Debug, PartialEq, Eq, Hash, PartialOrd, Ord)]
pub enum Ev {
    Submit(usize),
    Deliver(usize),
    Drop(usize),
    Dup(usize),
    /// node answers its oldest who-are-you query: with the record it knows (true) or with none
    AnsWay(usize, bool),
    /// node answers its oldest inbound request completely
    Respond(usize),
    Timer,
    Idle(u64),
    Restart(usize),
    /// engine-specific event (attacker moves, mutations, replays); resolved by a driver
    Ext(u32),
}

/// Engine-specific extension: extra events (attacker moves, mutations, idling) and monitors.
pub trait Driver: Sync {
    fn ext_enabled(&self, _w: &World) -> Vec<(Ev, u32)> {
        vec![]
    }
    fn ext_step<'a>(&'a self, _w: &'a mut World, _code: u32) -> std::pin::Pin<Box<dyn std::future::Future<Output = ()> + 'a>> {
        Box::pin(async {})
    }
    fn check(&self, _w: &mut World, _ev: &Ev, _pre: &[Option<HandlerSnapshot>]) {}
    fn leaf_check(&self, _w: &mut World) {}
    fn fingerprint_extra(&self, _w: &World) -> u128 {
        0
    }
}

pub struct NoDriver;
impl Driver for NoDriver {}

/* ------------------------------------------------------------------------------------ */
/* World                                                                                 */
/* ------------------------------------------------------------------------------------ */

#[derive(Clone, Debug)]
pub struct Datagram {
    pub seq: usize,
    pub src: SocketAddr,
    pub dst: SocketAddr,
    pub dst_id: NodeId,
    pub bytes: Vec<u8>,
    pub kind: u8, // 0 message, 1 whoareyou, 2 handshake
    pub nonce: [u8; 12],
    pub sent_at: Instant,
    /// true origin: node index, or -1 for a datagram crafted by a driver (attacker)
    pub origin: i32,
}

pub struct HNode {
    pub idx: usize,
    pub key: CombinedKey,
    pub enr: Enr,
    pub id: NodeId,
    pub addr: SocketAddr,
    pub wire: VirtualWire,
    pub tx: mpsc::UnboundedSender<HandlerIn>,
    pub rx: mpsc::Receiver<HandlerOut>,
    pub exit: Option<oneshot::Sender<()>>,
    pub way_queries: Vec<v::WhoAreYouRef>,
    pub inbound: Vec<(NodeAddress, v::Request)>,
    pub generation: u32,
}

#[derive(Clone, Debug, Default)]
pub struct ReqLedger {
    pub submitted_at: Option<Instant>,
    pub responses: u64,
    pub expected_total: Option<u64>,
    pub complete: bool,
    pub failures: Vec<String>,
    pub cancelled: bool,
    pub handshakes: u64,
    /// transmissions per encryption key
    pub transmissions: BTreeMap<[u8; 16], u64>,
    /// the complete answer reached the requester's handler (delivery step)
    pub answer_delivered: bool,
}

/// What the harness learnt about a datagram by decrypting it with every key it has seen.
#[derive(Clone, Debug, PartialEq, Eq, Hash)]
pub enum Plain {
    Request(Vec<u8>, String),
    Response(Vec<u8>, String),
    Opaque,
}

pub struct World {
    pub cfg: HCfg,
    pub nodes: Vec<HNode>,
    pub inflight: Vec<Datagram>,
    pub log: Vec<Datagram>,
    pub submitted: Vec<bool>,
    pub ledger: Vec<ReqLedger>,
    /// every session key ever seen in a snapshot: key -> (owner node, peer address)
    pub keys: BTreeMap<[u8; 16], (usize, SocketAddr)>,
    /// app-level events per node (canonical strings) of the last step
    pub last_events: Vec<Vec<String>>,
    pub last_raw: Vec<Vec<HandlerOut>>,
    /// (node, requester, request id) of the response the application handed over in this step
    pub last_responded: Option<(usize, NodeAddress, Vec<u8>, usize)>,
    /// (node, remote id, remote address) -> sequence number of the record the application supplied
    /// with its latest who-are-you answer
    pub way_answers: BTreeMap<(usize, [u8; 32], SocketAddr), u64>,
    pub all_events: Vec<Vec<String>>,
    pub t0: Instant,
    pub violations: Vec<Violation>,
    pub counters: BTreeMap<&'static str, u64>,
    pub prev_snaps: Vec<Option<HandlerSnapshot>>,
    /// internal requests seen in snapshots: (node, id) -> (peer, first seen, answered)
    pub internal: BTreeMap<(usize, Vec<u8>), (SocketAddr, Instant, bool)>,
    /// (node, peer) -> first time a request to that peer was seen active and not answered since
    pub emitted_by_key: BTreeMap<([u8; 16], [u8; 12]), Vec<u8>>,
    pub step_no: u64,
    /// datagrams delivered in the current step: (dst node, kind, src addr, claimed src id, nonce)
    pub delivered_now: Vec<(usize, u8, SocketAddr, Option<NodeId>, [u8; 12])>,
    /// a datagram was lost, duplicated, overtaken (by another datagram or by a timer), or a node restarted, earlier in this history
    pub disturbed: bool,
    /// true origin of each entry of `delivered_now`
    pub delivered_origin: Vec<i32>,
    /// (node id, address) pairs node 0 itself dialled and answered a WHOAREYOU for
    pub initiated: BTreeSet<([u8; 32], SocketAddr)>,
    pub idnonces: BTreeSet<[u8; 16]>,
    pub monitors: Monitors,
    /// response datagrams (by log sequence number) delivered per (node, request id)
    pub delivered_responses: BTreeMap<(usize, Vec<u8>), BTreeSet<usize>>,
    pub log_mark: usize,
    /// internal requests whose answer the handler consumed (session no longer awaits them)
    pub awaited_seen: BTreeSet<(usize, Vec<u8>)>,
    pub internal_answers_now: BTreeSet<(usize, Vec<u8>)>,
    pub last_use_pending: Vec<(usize, [u8; 16])>,
    /// harness-side record of when node i last really used its session with a peer address
    /// (encrypted a datagram under its key, or received a datagram that decrypts under it)
    pub last_use: BTreeMap<(usize, [u8; 16]), Instant>,
    /// when each challenge (by its challenge data) was first seen in a snapshot
    pub challenge_seen: BTreeMap<Vec<u8>, Instant>,
    /// attacker memory (challenge data of its own WHOAREYOUs, ...)
    pub scratch: Vec<(String, Vec<u8>)>,
    /// (node id, address) pairs that proved their identity to node 0 (harness-side fact)
    pub proved: BTreeSet<([u8; 32], SocketAddr)>,
}

#[derive(Clone, Debug)]
pub struct Monitors {
    pub c03: bool,
    pub c04: bool,
    pub c13: bool,
    pub c15: bool,
    pub c19: bool,
    /// handler part of C20: a request held by the application stays answerable
    pub c20: bool,
}

pub fn workload_id(k: usize) -> Vec<u8> {
    vec![0xA0 + k as u8, 0x01]
}

fn listen_for(i: usize, ipv6: bool) -> (ListenConfig, SocketAddr) {
    if ipv6 {
        let ip = std::net::Ipv6Addr::new(0x2001, 0xdb8, 0, 0, 0, 0, 0, 0x10 + i as u16);
        return (ListenConfig::Ipv6 { ip, port: 9000 }, SocketAddr::new(ip.into(), 9000));
    }
    let ip = std::net::Ipv4Addr::new(10, 0, 0, 10 + i as u8);
    (ListenConfig::Ipv4 { ip, port: 9000 }, SocketAddr::new(ip.into(), 9000))
}

impl World {
    pub async fn spawn_handler(cfg: &HCfg, i: usize, generation: u32) -> HNode {
        let key = util::key(100 + i as u16);
        let (listen, addr) = listen_for(i, cfg.ipv6);
        let enr = util::enr4(&key, 1, addr);
        let mut b = ConfigBuilder::new(listen);
        b.executor(Box::new(discv5::TokioExecutor));
        b.request_timeout(REQUEST_TIMEOUT);
        b.request_retries(cfg.retries);
        if let Some(t) = cfg.session_timeout {
            b.session_timeout(t);
        }
        if let Some(c) = cfg.session_capacity {
            b.session_cache_capacity(c);
        }
        if cfg.packet_filter {
            b.enable_packet_filter();
            b.filter_max_nodes_per_ip(None);
            b.filter_max_bans_per_ip(None);
        }
        if let Some((ip_n, node_n, total_n)) = cfg.rate_limits {
            let rl = discv5::RateLimiterBuilder::new()
                .total_n_every(total_n, Duration::from_secs(total_n))
                .ip_n_every(ip_n, Duration::from_secs(ip_n))
                .node_n_every(node_n, Duration::from_secs(node_n))
                .build()
                .expect("rate limiter");
            b.filter_rate_limiter(Some(rl));
        }
        let c = b.build();
        v::arm_virtual_socket(true);
        let (exit, tx, rx) = v::Handler::spawn(Arc::new(RwLock::new(enr.clone())), Arc::new(RwLock::new(util::key(100 + i as u16))), c).await.expect("handler");
        let wire = v::take_wire().expect("wire");
        HNode { idx: i, id: enr.node_id(), key, enr, addr, wire, tx, rx, exit: Some(exit), way_queries: vec![], inbound: vec![], generation }
    }

    pub async fn build(cfg: &HCfg, monitors: Monitors) -> World {
        v::arm_snapshots(true);
        v::clear_snapshots();
        v::set_nonce_random_override(if cfg.force_nonce { Some([0x42; 8]) } else { None });
        // one constant for everything is the strongest adversary; where a node has first messages to
        // several peers in flight at once (three plain nodes) the constant is mixed with the session
        // key, because equal nonces across sessions break the handler's nonce -> address map (which
        // the property does not forbid and real randomness excludes)
        v::set_nonce_override_per_key(cfg.nodes >= 3 && cfg.session_capacity.is_none());
        let mut nodes = vec![];
        for i in 0..cfg.nodes {
            nodes.push(World::spawn_handler(cfg, i, 0).await);
        }
        rt::settle().await;
        let n = cfg.nodes;
        World {
            cfg: cfg.clone(),
            nodes,
            inflight: vec![],
            log: vec![],
            submitted: vec![false; cfg.workload.len()],
            ledger: vec![ReqLedger::default(); cfg.workload.len()],
            keys: BTreeMap::new(),
            last_events: vec![vec![]; n],
            last_raw: vec![vec![]; n], last_responded: None, way_answers: BTreeMap::new(),
            all_events: vec![vec![]; n],
            t0: Instant::now(),
            violations: vec![],
            counters: BTreeMap::new(),
            prev_snaps: vec![None; n],
            internal: BTreeMap::new(),
            emitted_by_key: BTreeMap::new(),
            step_no: 0,
            delivered_now: vec![],
            disturbed: false,
            delivered_origin: vec![],
            initiated: BTreeSet::new(),
            idnonces: BTreeSet::new(),
            monitors,
            delivered_responses: BTreeMap::new(),
            log_mark: 0,
            awaited_seen: BTreeSet::new(),
            internal_answers_now: BTreeSet::new(),
            last_use_pending: vec![],
            last_use: BTreeMap::new(),
            challenge_seen: BTreeMap::new(),
            scratch: vec![],
            proved: BTreeSet::new(),
        }
    }

    pub fn count(&mut self, k: &'static str) {
        *self.counters.entry(k).or_insert(0) += 1;
    }

    pub fn node_by_addr(&self, a: &SocketAddr) -> Option<usize> {
        self.nodes.iter().position(|n| n.addr == *a)
    }

    pub fn snap(&self, i: usize) -> Option<HandlerSnapshot> {
        v::snapshot(&self.nodes[i].id)
    }

    pub fn violate(&mut self, prop: &str, clause: &str, key: &str, detail: String) {
        // focus entries name a property ("C03") or one clause of it ("C03:expired-challenge-accepted")
        if !self.cfg.focus.is_empty() && !self.cfg.focus.iter().any(|p| p == prop || *p == format!("{prop}:{key}")) {
            return;
        }
        self.violations.push(Violation { clause: clause.into(), key: format!("{prop}:{key}"), detail, replay: json!(null) });
    }

    /// Tries every key ever seen to read a message datagram.
    pub fn read(&self, d: &Datagram) -> (Plain, Option<[u8; 16]>) {
        if d.kind == 1 {
            return (Plain::Opaque, None);
        }
        let dec = match VPacket::decode(&d.dst_id, &d.bytes) {
            Ok(x) => x,
            Err(_) => return (Plain::Opaque, None),
        };
        for k in self.keys.keys() {
            if let Ok(pt) = v::aead_decrypt(k, dec.0.message_nonce, &dec.0.message, &dec.1) {
                return match v::Message::decode(&pt) {
                    Ok(v::Message::Request(r)) => (Plain::Request(r.id.0.clone(), format!("{}", r.body)), Some(*k)),
                    Ok(v::Message::Response(r)) => (Plain::Response(r.id.0.clone(), kind_of_response(&r.body)), Some(*k)),
                    Err(_) => (Plain::Opaque, Some(*k)),
                };
            }
        }
        (Plain::Opaque, None)
    }

    fn learn_keys(&mut self) {
        for i in 0..self.nodes.len() {
            if let Some(s) = self.snap(i) {
                for sess in &s.sessions {
                    self.keys.entry(sess.encryption_key).or_insert((i, sess.addr.socket_addr));
                    if let Some((e, _)) = sess.old_keys {
                        self.keys.entry(e).or_insert((i, sess.addr.socket_addr));
                    }
                }
            }
        }
    }

    /// Runs the SUT to quiescence and moves everything it produced into the environment.
    pub async fn absorb(&mut self) {
        for round in 0..64 {
            rt::settle().await;
            let mut moved = false;
            for i in 0..self.nodes.len() {
                while let Some(out) = self.nodes[i].wire.try_recv_outbound() {
                    moved = true;
                    let (kind, idn) = match &out.packet.kind {
                        PacketKind::Message { .. } => (0u8, None),
                        PacketKind::WhoAreYou { id_nonce, .. } => (1, Some(*id_nonce)),
                        PacketKind::Handshake { .. } => (2, None),
                    };
                    if let Some(n) = idn {
                        if !self.idnonces.insert(n) && self.monitors.c19 {
                            self.violate("C19", "the id-nonces of WHOAREYOU packets never repeat", "idnonce-repeat", format!("node {i}"));
                        }
                    }
                    let d = Datagram { seq: self.log.len(), src: self.nodes[i].addr, dst: out.dst.socket_addr, dst_id: out.dst.node_id, bytes: out.bytes, kind, nonce: out.packet.message_nonce, sent_at: Instant::now(), origin: i as i32 };
                    self.log.push(d.clone());
                    self.inflight.push(d);
                }
                while let Ok(ev) = self.nodes[i].rx.try_recv() {
                    moved = true;
                    self.on_app_event(i, ev);
                }
            }
            if !moved {
                self.learn_keys();
                return;
            }
            if round == 63 {
                mc::machinery("quiescence cap hit");
            }
        }
    }

    fn on_app_event(&mut self, i: usize, ev: HandlerOut) {
        let desc = match &ev {
            HandlerOut::Established(enr, addr, dir) => format!("Established({},{},{:?})", self.name_of(&enr.node_id()), addr, dir),
            HandlerOut::Request(a, r) => format!("Request({},{},{})", self.name_of(&a.node_id), self.id_name(&r.id.0), r.body),
            HandlerOut::Response(a, r) => format!("Response({},{},{})", self.name_of(&a.node_id), self.id_name(&r.id.0), kind_of_response(&r.body)),
            HandlerOut::WhoAreYou(w) => format!("WhoAreYou({})", self.name_of(&w.0.node_id)),
            HandlerOut::RequestFailed(id, e) => format!("RequestFailed({},{:?})", self.id_name(&id.0), e),
            HandlerOut::UnverifiableEnr { node_id, .. } => format!("UnverifiableEnr({})", self.name_of(node_id)),
            HandlerOut::UnrecognizedFrame(_) => "UnrecognizedFrame".to_string(),
            HandlerOut::ExpiredSessions(s) => format!("ExpiredSessions({})", s.len()),
        };
        self.last_events[i].push(desc.clone());
        self.last_raw[i].push(ev.clone());
        self.all_events[i].push(desc);
        // C14 / C02, handler part: a request is attributed to exactly the source address its datagram
        // was observed from
        if let HandlerOut::Request(a, _) = &ev {
            if !self.delivered_now.is_empty() && !self.delivered_now.iter().any(|d| d.0 == i && d.2 == a.socket_addr) {
                let seen: Vec<SocketAddr> = self.delivered_now.iter().filter(|d| d.0 == i).map(|d| d.2).collect();
                let detail = format!("node {i} attributes a request to {} but the datagrams it received in this step came from {:?}", a.socket_addr, seen);
                self.violate("C14", "a PING is answered with exactly the source IP and port the request was observed from", "request-source-rewritten", detail.clone());
                self.violate("C02", "presenting a datagram from another source address never produces a delivered message with different attribution", "request-source-rewritten", detail);
            }
        }
        // C12, handler part: the record of an incoming session is never older than the one the
        // application supplied when it answered the who-are-you query for that peer
        if let HandlerOut::Established(enr, addr, v::ConnectionDirection::Incoming) = &ev {
            if let Some(known) = self.way_answers.get(&(i, enr.node_id().raw(), *addr)).copied() {
                if enr.seq() < known {
                    self.violate("C12", "a record learnt from the network replaces a stored one only if it has a strictly higher sequence number", "session-record-older-than-known", format!("node {i} reports the session of {} with a record of seq {} although its application supplied seq {known}", addr, enr.seq()));
                } else {
                    self.count("incoming_sessions_with_known_record");
                }
            }
        }
        match ev {
            HandlerOut::WhoAreYou(w) => self.nodes[i].way_queries.push(w),
            HandlerOut::Request(a, r) => self.nodes[i].inbound.push((a, *r)),
            HandlerOut::Response(_a, r) => {
                if let Some(k) = (0..self.cfg.workload.len()).find(|k| workload_id(*k) == r.id.0 && self.cfg.workload[*k].from == i) {
                    let l = &mut self.ledger[k];
                    l.responses += 1;
                    let total = match &r.body {
                        v::ResponseBody::Nodes { total, .. } => (*total).max(1),
                        _ => 1,
                    };
                    if l.expected_total.is_none() {
                        l.expected_total = Some(total);
                    }
                    // a response that does not announce further packets ends the exchange whatever
                        // an earlier packet announced (only a malicious responder mixes the two)
                        let closes = !matches!(&r.body, v::ResponseBody::Nodes { total, .. } if *total > 1);
                        if l.responses >= l.expected_total.unwrap() || closes {
                        if l.complete && self.monitors.c04 {
                            self.violate("C04", "a request never gets two terminal outcomes", "double-response", format!("request {k}: more responses than its total"));
                        }
                        self.ledger[k].complete = true;
                    }
                } else {
                    // responses to handler-internal requests that surface at the application
                    self.count("internal_responses_surfaced");
                }
            }
            HandlerOut::RequestFailed(id, e) => {
                if let Some(k) = (0..self.cfg.workload.len()).find(|k| workload_id(*k) == id.0 && self.cfg.workload[*k].from == i) {
                    self.ledger[k].failures.push(format!("{:?}", e));
                    if matches!(e, discv5::RequestError::Timeout) {
                        self.check_timeout_legal(i, k);
                    }
                }
            }
            _ => {}
        }
    }

    /// Request ids are canonical: workload index, or "int" for (random) handler-internal ids.
    pub fn id_name(&self, id: &[u8]) -> String {
        match (0..self.cfg.workload.len()).find(|k| workload_id(*k) == id) {
            Some(k) => format!("r{k}"),
            None => "int".into(),
        }
    }

    pub fn name_of(&self, id: &NodeId) -> String {
        match self.nodes.iter().position(|n| n.id == *id) {
            Some(i) => format!("N{i}"),
            None => format!("X{}", util::short(id)),
        }
    }

    /// C04: a Timeout is legal iff some request to that peer really went unanswered for a full
    /// timeout period.
    fn check_timeout_legal(&mut self, i: usize, k: usize) {
        if !self.monitors.c04 {
            return;
        }
        let now = Instant::now();
        let peer = self.cfg.workload[k].to;
        let peer_addr = if peer < self.nodes.len() { self.nodes[peer].addr } else { self.cfg.ghost.as_ref().map(|g| g.1).expect("ghost") };
        let mut witness = false;
        for (j, r) in self.cfg.workload.iter().enumerate() {
            if r.from == i && r.to == peer {
                if let Some(t) = self.ledger[j].submitted_at {
                    // "answered": its response datagrams reached the handler. Where sessions can
                    // legitimately disappear under a request in flight (cache capacity, session
                    // timeout) such a datagram may be unreadable, so only a response handed to the
                    // application counts there.
                    let sessions_may_vanish = self.cfg.session_capacity.is_some() || self.cfg.session_timeout.is_some();
                    let answered = if sessions_may_vanish { self.ledger[j].complete } else { self.ledger[j].answer_delivered };
                    if !answered && now.saturating_duration_since(t) >= REQUEST_TIMEOUT {
                        witness = true;
                    }
                }
            }
        }
        for ((n, _id), (addr, first, answered)) in &self.internal {
            if *n == i && *addr == peer_addr && !*answered && now.saturating_duration_since(*first) >= REQUEST_TIMEOUT {
                witness = true;
            }
        }
        if !witness {
            self.violate("C04", "a timeout is reported only if some request to that peer really went unanswered for a full timeout period", "premature-timeout", format!("request {k} of node {i} failed with Timeout {:?} after its submission; no request to that peer was unanswered for {:?}", self.ledger[k].submitted_at.map(|t| now.saturating_duration_since(t)), REQUEST_TIMEOUT));
        }
    }

    /* -------------------------------------------------------------------------------- */
    /* Events                                                                             */
    /* -------------------------------------------------------------------------------- */

    pub fn earliest_deadline(&self) -> Option<Duration> {
        let mut best: Option<Duration> = None;
        for i in 0..self.nodes.len() {
            if let Some(s) = self.snap(i) {
                let age = s.published.elapsed();
                for r in s.active_requests.iter().filter_map(|a| a.remaining).chain(s.challenges.iter().filter_map(|c| c.remaining)) {
                    let r = r.saturating_sub(age);
                    best = Some(best.map_or(r, |b: Duration| b.min(r)));
                }
            }
        }
        best
    }

    /// Lets `total` pass, firing pending timers one deadline at a time (several timer queues
    /// becoming due in one jump would be taken in random order by `select!`).
    pub async fn advance_through(&mut self, total: Duration) {
        let mut remaining = total;
        for _ in 0..64 {
            match self.earliest_deadline() {
                Some(d) if d <= remaining => {
                    clock::advance(d);
                    remaining -= d;
                    self.absorb().await;
                    if d.is_zero() {
                        clock::advance(Duration::from_millis(1));
                        remaining = remaining.saturating_sub(Duration::from_millis(1));
                        self.absorb().await;
                    }
                }
                _ => break,
            }
        }
        clock::advance(remaining);
        self.absorb().await;
    }

    pub fn default_event(&self) -> Option<Ev> {
        if !self.inflight.is_empty() {
            return Some(Ev::Deliver(0));
        }
        for n in &self.nodes {
            if !n.way_queries.is_empty() {
                return Some(Ev::AnsWay(n.idx, true));
            }
        }
        for n in &self.nodes {
            if !n.inbound.is_empty() {
                return Some(Ev::Respond(n.idx));
            }
        }
        if let Some(k) = self.submitted.iter().position(|s| !*s) {
            return Some(Ev::Submit(k));
        }
        if self.earliest_deadline().is_some() {
            return Some(Ev::Timer);
        }
        None
    }

    pub fn enabled(&self) -> Vec<(Ev, u32)> {
        if self.cfg.free_app_timing {
            return self.enabled_free_app();
        }
        let mut out: Vec<(Ev, u32)> = vec![];
        let def = self.default_event();
        let push = |e: Ev, cost: u32, out: &mut Vec<(Ev, u32)>| {
            let c = if Some(&e) == def.as_ref() { 0 } else { cost };
            if !out.iter().any(|(x, _)| *x == e) {
                out.push((e, c));
            }
        };
        if let Some(d) = def.clone() {
            push(d, 0, &mut out);
        }
        for (k, s) in self.submitted.iter().enumerate() {
            if !*s {
                push(Ev::Submit(k), 0, &mut out); // when the application submits is free
            }
        }
        for i in 0..self.inflight.len() {
            if i == 0 || self.cfg.allow_reorder {
                push(Ev::Deliver(i), 1, &mut out);
            }
            if self.cfg.allow_drop {
                push(Ev::Drop(i), 1, &mut out);
            }
            if self.cfg.allow_dup {
                push(Ev::Dup(i), 1, &mut out);
            }
        }
        for n in &self.nodes {
            if !n.way_queries.is_empty() {
                push(Ev::AnsWay(n.idx, true), 1, &mut out);
                push(Ev::AnsWay(n.idx, false), 1, &mut out);
            }
            if !n.inbound.is_empty() {
                push(Ev::Respond(n.idx), 1, &mut out);
            }
        }
        if self.cfg.allow_early_timer && self.earliest_deadline().is_some() {
            push(Ev::Timer, 1, &mut out);
        }
        for r in &self.cfg.allow_restart {
            if self.nodes[*r].generation == 0 {
                push(Ev::Restart(*r), 1, &mut out);
            }
        }
        out
    }

    /// Cost model with free application timing: truthful who-are-you answers, responses and
    /// submissions cost nothing whenever they happen; the network / timer default (deliver the
    /// oldest datagram, else fire the earliest timer) costs nothing; everything else costs 1.
    fn enabled_free_app(&self) -> Vec<(Ev, u32)> {
        let mut out: Vec<(Ev, u32)> = vec![];
        let push = |e: Ev, cost: u32, out: &mut Vec<(Ev, u32)>| {
            if !out.iter().any(|(x, _)| *x == e) {
                out.push((e, cost));
            }
        };
        for n in &self.nodes {
            if !n.way_queries.is_empty() {
                push(Ev::AnsWay(n.idx, true), 0, &mut out);
            }
            if !n.inbound.is_empty() {
                push(Ev::Respond(n.idx), 0, &mut out);
            }
        }
        for (k, s) in self.submitted.iter().enumerate() {
            if !*s {
                push(Ev::Submit(k), 0, &mut out);
            }
        }
        if !self.inflight.is_empty() {
            push(Ev::Deliver(0), 0, &mut out);
        } else if self.earliest_deadline().is_some() {
            push(Ev::Timer, 0, &mut out);
        }
        for i in 0..self.inflight.len() {
            if self.cfg.allow_reorder {
                push(Ev::Deliver(i), 1, &mut out);
            }
            if self.cfg.allow_drop {
                push(Ev::Drop(i), 1, &mut out);
            }
            if self.cfg.allow_dup {
                push(Ev::Dup(i), 1, &mut out);
            }
        }
        if self.cfg.allow_late_way {
            for n in &self.nodes {
                if !n.way_queries.is_empty() {
                    push(Ev::AnsWay(n.idx, false), 1, &mut out);
                }
            }
        }
        if self.cfg.allow_early_timer && self.earliest_deadline().is_some() {
            push(Ev::Timer, 1, &mut out);
        }
        for r in &self.cfg.allow_restart {
            if self.nodes[*r].generation == 0 {
                push(Ev::Restart(*r), 1, &mut out);
            }
        }
        out
    }

    pub async fn step(&mut self, ev: &Ev, driver: &dyn Driver) -> String {
        self.step_no += 1;
        for e in self.last_events.iter_mut() {
            e.clear();
        }
        for e in self.last_raw.iter_mut() {
            e.clear();
        }
        self.delivered_now.clear();
        self.delivered_origin.clear();
        let pre: Vec<Option<HandlerSnapshot>> = (0..self.nodes.len()).map(|i| self.snap(i)).collect();
        self.log_mark = self.log.len();
        if matches!(ev, Ev::Drop(_) | Ev::Dup(_) | Ev::Restart(_)) || matches!(ev, Ev::Deliver(i) if *i > 0) || (matches!(ev, Ev::Timer) && !self.inflight.is_empty()) {
            self.disturbed = true;
        }
        if !matches!(ev, Ev::Timer | Ev::Idle(_)) {
            clock::advance(Duration::from_millis(10));
        }
        match ev {
            Ev::Submit(k) => {
                let r = self.cfg.workload[*k].clone();
                let contact = if r.to < self.nodes.len() {
                    let to = &self.nodes[r.to];
                    if r.with_enr { NodeContact::try_from_enr(to.enr.clone(), if self.cfg.ipv6 { IpMode::Ip6 } else { IpMode::Ip4 }).unwrap() } else { NodeContact::new(to.enr.public_key(), to.addr, None) }
                } else if r.to == 8 {
                    // the crafted peer dialled at a second port of its address (no record)
                    let (enr, addr, _) = self.cfg.ghost.clone().expect("ghost peer");
                    NodeContact::new(enr.public_key(), SocketAddr::new(addr.ip(), addr.port() + 1), None)
                } else {
                    let (enr, addr, _) = self.cfg.ghost.clone().expect("ghost peer");
                    if r.with_enr { NodeContact::new(enr.public_key(), addr, Some(enr)) } else { NodeContact::new(enr.public_key(), addr, None) }
                };
                let body = match r.body {
                    Body::Ping => v::RequestBody::Ping { enr_seq: 1 },
                    Body::Find(_) => v::RequestBody::FindNode { distances: vec![255, 256] },
                    Body::Talk | Body::TalkMax => v::RequestBody::Talk { protocol: b"p".to_vec(), request: vec![*k as u8] },
                };
                self.submitted[*k] = true;
                self.ledger[*k].submitted_at = Some(Instant::now());
                let _ = self.nodes[r.from].tx.send(HandlerIn::Request(contact, Box::new(v::Request { id: v::RequestId(workload_id(*k)), body })));
            }
            Ev::Deliver(i) => {
                let d = self.inflight.remove(*i);
                self.deliver(&d, d.src).await;
            }
            Ev::Drop(i) => {
                self.inflight.remove(*i);
            }
            Ev::Dup(i) => {
                let d = self.inflight[*i].clone();
                self.deliver(&d, d.src).await;
            }
            Ev::AnsWay(n, known) => {
                let w = self.nodes[*n].way_queries.remove(0);
                let enr = if *known {
                    self.nodes
                        .iter()
                        .find(|x| x.id == w.0.node_id)
                        .map(|x| if self.cfg.known_seq > 1 { util::enr4(&x.key, self.cfg.known_seq, x.addr) } else { x.enr.clone() })
                        // the crafted peer's record (seq 1) is known to the application as well
                        .or_else(|| self.cfg.ghost.as_ref().filter(|g| g.2 && g.0.node_id() == w.0.node_id).map(|g| g.0.clone()))
                        .or_else(|| self.cfg.extra_known.iter().find(|e| e.node_id() == w.0.node_id).cloned())
                } else {
                    None
                };
                // what the application said it knows when it answered the query
                if let Some(e) = &enr {
                    self.way_answers.insert((*n, w.0.node_id.raw(), w.0.socket_addr), e.seq());
                } else {
                    self.way_answers.remove(&(*n, w.0.node_id.raw(), w.0.socket_addr));
                }
                let _ = self.nodes[*n].tx.send(HandlerIn::WhoAreYou(w, enr));
            }
            Ev::Respond(n) => {
                let (addr, req) = self.nodes[*n].inbound.remove(0);
                self.last_responded = Some((*n, addr.clone(), req.id.0.clone(), 0));
                let shape = (0..self.cfg.workload.len()).find(|k| workload_id(*k) == req.id.0).map(|k| self.cfg.workload[k].body.clone());
                let responses: Vec<v::ResponseBody> = match (&req.body, shape) {
                    (v::RequestBody::Ping { .. }, _) => vec![v::ResponseBody::Pong { enr_seq: 1, ip: addr.socket_addr.ip(), port: addr.socket_addr.port().try_into().unwrap() }],
                    (v::RequestBody::FindNode { distances }, s) => {
                        if distances == &vec![0] {
                            vec![v::ResponseBody::Nodes { total: 1, nodes: vec![self.nodes[*n].enr.clone()] }]
                        } else {
                            let n = match s {
                                Some(Body::Find(n)) => n.max(1) as u64,
                                _ => 1,
                            };
                            (0..n).map(|_| v::ResponseBody::Nodes { total: n, nodes: vec![] }).collect()
                        }
                    }
                    // 16 IV + 23 static header + 32 auth-data + (1 type + 3 list + 3 id + 3 + n) + 16 tag = 1280
                    (v::RequestBody::Talk { .. }, Some(Body::TalkMax)) => vec![v::ResponseBody::Talk { response: vec![0x5a; 1183] }],
                    (v::RequestBody::Talk { .. }, _) => vec![v::ResponseBody::Talk { response: vec![1] }],
                };
                if let Some(l) = self.last_responded.as_mut() {
                    l.3 = responses.len();
                }
                for b in responses {
                    let _ = self.nodes[*n].tx.send(HandlerIn::Response(addr.clone(), Box::new(v::Response { id: req.id.clone(), body: b })));
                }
            }
            Ev::Timer => {
                let d = self.earliest_deadline().unwrap_or(Duration::from_millis(0));
                clock::advance(d);
                self.absorb().await;
                // timer wheels round to the millisecond
                for _ in 0..3 {
                    if self.last_events.iter().all(|e| e.is_empty()) && self.earliest_deadline().map(|r| r.is_zero()).unwrap_or(false) {
                        clock::advance(Duration::from_millis(1));
                        self.absorb().await;
                    }
                }
            }
            Ev::Idle(ms) => {
                clock::advance(Duration::from_millis(*ms));
            }
            Ev::Restart(n) => {
                let old = std::mem::replace(&mut self.nodes[*n], World::spawn_handler(&self.cfg, *n, 1).await);
                drop(old);
                for (k, r) in self.cfg.workload.iter().enumerate() {
                    if r.from == *n && self.submitted[k] && !self.ledger[k].complete && self.ledger[k].failures.is_empty() {
                        self.ledger[k].cancelled = true;
                    }
                }
                self.prev_snaps[*n] = None;
            }
            Ev::Ext(code) => {
                driver.ext_step(self, *code).await;
            }
        }
        self.absorb().await;
        self.after_step(ev, &pre);
        driver.check(self, ev, &pre);
        format!("{:?}", self.last_events)
    }

    /// Delivers bytes to the node listening on the datagram's destination address through the
    /// real receive path.
    pub async fn deliver(&mut self, d: &Datagram, src: SocketAddr) {
        if let Some(i) = self.node_by_addr(&d.dst) {
            let claimed = VPacket::decode(&self.nodes[i].id, &d.bytes).ok().and_then(|(p, _)| match p.kind {
                PacketKind::Message { src_id } => Some(src_id),
                PacketKind::Handshake { src_id, .. } => Some(src_id),
                _ => None,
            });
            self.delivered_now.push((i, d.kind, src, claimed, d.nonce));
            self.delivered_origin.push(d.origin);
            // C04 / C13: does this datagram complete the answer of a request of node i?
            let (plain, k) = self.read(d);
            if let Some(k) = k {
                // a datagram that decrypts under the receiver's session key is a use of that session
                // (sessions are identified by the receiver's own encryption key)
                if let Some(s) = self.snap(i) {
                    for sess in &s.sessions {
                        if sess.decryption_key == k {
                            self.last_use_pending.push((i, sess.encryption_key));
                        }
                        if let Some((e, dk)) = sess.old_keys {
                            if dk == k {
                                self.last_use_pending.push((i, e));
                            }
                        }
                    }
                }
            }
            if let Plain::Response(id, _) = &plain {
                self.note_answer_delivery(i, id.clone(), src, d.seq);
            }
            self.nodes[i].wire.inject(src, &d.bytes).await;
        }
    }

    pub async fn deliver_raw(&mut self, to: usize, src: SocketAddr, bytes: &[u8], kind: u8, nonce: [u8; 12], origin: i32) {
        let claimed = VPacket::decode(&self.nodes[to].id, bytes).ok().and_then(|(p, _)| match p.kind {
            PacketKind::Message { src_id } => Some(src_id),
            PacketKind::Handshake { src_id, .. } => Some(src_id),
            _ => None,
        });
        self.delivered_now.push((to, kind, src, claimed, nonce));
        self.delivered_origin.push(origin);
        self.nodes[to].wire.inject(src, bytes).await;
    }

    fn note_answer_delivery(&mut self, i: usize, id: Vec<u8>, src: SocketAddr, seq: usize) {
        // a response datagram for request `id` reached node i's handler
        if let Some(k) = (0..self.cfg.workload.len()).find(|k| workload_id(*k) == id && self.cfg.workload[*k].from == i) {
            let n = match self.cfg.workload[k].body {
                Body::Find(n) => n.max(1) as u64,
                _ => 1,
            };
            let _ = src;
            let e = self.delivered_responses.entry((i, id)).or_default();
            e.insert(seq);
            if e.len() as u64 >= n {
                self.ledger[k].answer_delivered = true;
            }
        } else {
            self.internal_answers_now.insert((i, id));
        }
    }
}

pub fn kind_of_response(b: &v::ResponseBody) -> String {
    match b {
        v::ResponseBody::Pong { .. } => "PONG".into(),
        v::ResponseBody::Nodes { total, nodes } => format!("NODES({total},{})", nodes.len()),
        v::ResponseBody::Talk { .. } => "TALKRESP".into(),
    }
}

/* ------------------------------------------------------------------------------------ */
/* Monitors                                                                              */
/* ------------------------------------------------------------------------------------ */

type KeySet = BTreeSet<(SocketAddr, [u8; 16], [u8; 16])>;

fn key_material(s: &Option<HandlerSnapshot>) -> KeySet {
    let mut out = BTreeSet::new();
    if let Some(s) = s {
        for x in &s.sessions {
            out.insert((x.addr.socket_addr, x.encryption_key, x.decryption_key));
            if let Some((e, d)) = x.old_keys {
                out.insert((x.addr.socket_addr, e, d));
            }
        }
    }
    out
}

impl World {
    fn after_step(&mut self, ev: &Ev, pre: &[Option<HandlerSnapshot>]) {
        let now = Instant::now();
        let post: Vec<Option<HandlerSnapshot>> = (0..self.nodes.len()).map(|i| self.snap(i)).collect();
        let restarted = if let Ev::Restart(n) = ev { Some(*n) } else { None };

        /* bookkeeping: age of challenges */
        for s in post.iter().flatten() {
            for c in &s.challenges {
                self.challenge_seen.entry(c.challenge_data.clone()).or_insert(now);
            }
        }

        /* bookkeeping: internal requests */
        for (i, s) in post.iter().enumerate() {
            if let Some(s) = s {
                for a in s.active_requests.iter().filter(|a| a.internal) {
                    self.internal.entry((i, a.id.clone())).or_insert((a.addr.socket_addr, now, false));
                }
                for sess in &s.sessions {
                    if let Some(id) = &sess.awaiting_enr {
                        self.awaited_seen.insert((i, id.clone()));
                    }
                }
                // consumed: a session awaited it before this step, none does now, and a response
                // carrying its id was delivered to this node in this step
                let awaited_now: BTreeSet<Vec<u8>> = s.sessions.iter().filter_map(|x| x.awaiting_enr.clone()).collect();
                let awaited_before: BTreeSet<Vec<u8>> = pre[i].as_ref().map(|p| p.sessions.iter().filter_map(|x| x.awaiting_enr.clone()).collect()).unwrap_or_default();
                for id in awaited_before.difference(&awaited_now) {
                    if self.internal_answers_now.contains(&(i, id.clone())) {
                        if let Some(v) = self.internal.get_mut(&(i, id.clone())) {
                            v.2 = true;
                        }
                    }
                }
            }
        }
        self.internal_answers_now.clear();

        /* wire accounting of everything emitted in this step */
        let emitted: Vec<Datagram> = self.log[self.log_mark..].to_vec();
        for d in &emitted {
            let owner = match self.node_by_addr(&d.src) {
                Some(o) => o,
                None => continue,
            };
            let (plain, key) = self.read(d);
            if let (Some(k), true) = (key, d.kind != 1) {
                // C19: one nonce, one message per key
                match self.emitted_by_key.get(&(k, d.nonce)) {
                    Some(prev) if *prev != d.bytes => {
                        // byte-identical retransmissions are fine; the IV is part of the bytes, so
                        // compare the ciphertext part only (a retransmission reuses the packet)
                        if self.monitors.c19 {
                            self.violate("C19", "under one session key a node never encrypts two different messages with the same nonce", "nonce-reuse", format!("node {owner}: nonce {} used for two different datagrams under one key", hex::encode(d.nonce)));
                        }
                    }
                    Some(_) => self.count("retransmissions"),
                    None => {
                        self.emitted_by_key.insert((k, d.nonce), d.bytes.clone());
                    }
                }
                self.count("datagrams_attributed_to_a_key");
                // harness-side idle time of the session this datagram was encrypted under
                // (byte-identical retransmissions were encrypted earlier and are no new use)
                let retransmission = self.log[..self.log_mark].iter().any(|o| o.bytes == d.bytes);
                if !retransmission {
                    let pk = (owner, k);
                    if let (true, Some(t), Some(lu)) = (self.monitors.c15 && d.kind == 0, self.cfg.session_timeout, self.last_use.get(&pk)) {
                        let idle = now.saturating_duration_since(*lu);
                        if idle > t {
                            self.violate("C15", "a session unused for longer than the session timeout is never used again to encrypt a message", "expired-session-encrypts", format!("node {owner} sent a message to {} under a session last used {:?} ago (timeout {:?}; last use = last datagram encrypted or accepted under it)", d.dst, idle, t));
                        }
                    }
                    self.last_use.insert(pk, now);
                }
                if let Plain::Request(id, _) = &plain {
                    if let Some(w) = (0..self.cfg.workload.len()).find(|w| workload_id(*w) == *id && self.cfg.workload[*w].from == owner) {
                        *self.ledger[w].transmissions.entry(k).or_insert(0) += 1;
                        // a byte-identical re-send of the handshake datagram by the request timer is the
                        // same handshake, not a second answer
                        if d.kind == 2 && !retransmission {
                            self.ledger[w].handshakes += 1;
                        }
                    }
                }
            }
        }

        // capacity victim by harness-side recency (before this step's receipts are applied)
        let use_before = self.last_use.clone();
        // establishing a session is a use of it (its first datagram may be unreadable to the harness
        // at the time: the keys only become known with this snapshot)
        for (i, s) in post.iter().enumerate() {
            if let Some(s) = s {
                for sess in &s.sessions {
                    let was = pre[i].as_ref().map(|p| p.sessions.iter().any(|x| x.addr == sess.addr && x.encryption_key == sess.encryption_key)).unwrap_or(false);
                    if !was {
                        self.last_use.entry((i, sess.encryption_key)).or_insert(now);
                    }
                }
            }
        }
        for (i, key) in std::mem::take(&mut self.last_use_pending) {
            self.last_use.insert((i, key), now);
        }

        /* C04: outcome ledger */
        if self.monitors.c04 {
            for k in 0..self.ledger.len() {
                let l = self.ledger[k].clone();
                let terminal = l.complete as usize + l.failures.len();
                if terminal > 1 {
                    self.violate("C04", "a request never gets both a response and a failure, nor two failures", "double-outcome", format!("request {k}: complete={} failures={:?}", l.complete, l.failures));
                }
                for (_key, n) in &l.transmissions {
                    if *n > 1 + self.cfg.retries as u64 {
                        self.violate("C04", "a request is put on the wire at most 1+retries times per session key", "too-many-transmissions", format!("request {k}: {n} transmissions under one key, retries = {}", self.cfg.retries));
                    }
                }
            }
        }
        if self.monitors.c03 {
            for k in 0..self.ledger.len() {
                if self.ledger[k].handshakes > 1 {
                    let n = self.ledger[k].handshakes;
                    self.violate("C03", "a request is answered with at most one handshake", "second-handshake", format!("request {k}: {n} handshake packets"));
                }
            }
        }

        /* C20, handler part: without session expiry, capacity pressure or a restart, a request the
           application still holds remains answerable — the passing of time (request timeouts of
           this node's own requests, challenge expiry) never takes the requester's session away —
           and the response the application hands over is put on the wire to the requester */
        let responded = self.last_responded.take();
        if self.monitors.c20 && self.cfg.session_timeout.is_none() && self.cfg.session_capacity.is_none() {
            if matches!(ev, Ev::Timer) {
                for i in 0..self.nodes.len() {
                    if let (Some(p), Some(q)) = (&pre[i], &post[i]) {
                        let only_timeouts = self.last_raw[i].iter().all(|e| !matches!(e, HandlerOut::RequestFailed(_, err) if !matches!(err, discv5::RequestError::Timeout)));
                        if !only_timeouts {
                            continue;
                        }
                        for s in &p.sessions {
                            let held = self.nodes[i].inbound.iter().any(|(a, _)| *a == s.addr);
                            if held {
                                self.count("timer_steps_with_a_held_request");
                            }
                            if held && !q.sessions.iter().any(|x| x.addr == s.addr) {
                                let (name, addr) = (self.name_of(&s.addr.node_id), s.addr.socket_addr);
                                self.violate("C20", "each delivered request leads to exactly one response to the node address it came from", "held-request-unanswerable", format!("node {i} dropped its session with {name} at {addr} in a timer step that only reported timeouts {:?}, while its application holds a request from that peer", self.last_events[i]));
                            }
                        }
                    }
                }
            }
            // while no datagram was lost, duplicated or overtaken, no node restarted and nothing is
            // crafted, every message datagram is authentic and under keys of a handshake both nodes
            // completed: receiving one never takes the sender's session away while the application
            // holds a request from it
            if !self.disturbed && self.cfg.ghost.is_none() && matches!(ev, Ev::Deliver(_)) {
                for (to, kind, src, _, _) in self.delivered_now.clone() {
                    if kind != 0 {
                        continue;
                    }
                    if let (Some(p), Some(q)) = (&pre[to], &post[to]) {
                        for s in p.sessions.iter().filter(|s| s.addr.socket_addr == src) {
                            let held = self.nodes[to].inbound.iter().any(|(a, _)| *a == s.addr);
                            if held {
                                self.count("authentic_deliveries_with_a_held_request");
                            }
                            if held && !q.sessions.iter().any(|x| x.addr == s.addr) {
                                let (name, addr) = (self.name_of(&s.addr.node_id), s.addr.socket_addr);
                                self.violate("C20", "each delivered request leads to exactly one response to the node address it came from", "held-request-unanswerable", format!("node {to} dropped its session with {name} at {addr} on receiving an authentic message datagram from it ({:?}), while its application holds a request from that peer", self.last_events[to]));
                            }
                        }
                    }
                }
            }
            // a request is only ever delivered under a session; that session is still there when
            // the step ends (otherwise the application's answer could not be sent)
            for i in 0..self.nodes.len() {
                if let Some(q) = &post[i] {
                    for raw in self.last_raw[i].clone() {
                        if let HandlerOut::Request(a, _) = raw {
                            if !q.sessions.iter().any(|s| s.addr == a) {
                                let detail = format!("node {i} handed a request from {} to its application but holds no session with it afterwards ({:?})", a.socket_addr, ev);
                                self.violate("C20", "each delivered request leads to exactly one response to the node address it came from", "request-delivered-session-dropped", detail.clone());
                                self.violate("C14", "every request is answered", "request-delivered-session-dropped", detail);
                            }
                        }
                    }
                }
            }
            if let Some((i, addr, id, count)) = responded {
                let had_session = pre[i].as_ref().map(|p| p.sessions.iter().any(|s| s.addr == addr)).unwrap_or(false);
                if had_session {
                    let me = self.nodes[i].addr;
                    let sent = self.log[self.log_mark..].iter().filter(|d| d.src == me && d.dst == addr.socket_addr && matches!(self.read(d).0, Plain::Response(ref rid, _) if *rid == id)).count();
                    if sent >= count && count > 0 {
                        self.count("responses_put_on_the_wire");
                        if self.log[self.log_mark..].iter().any(|d| d.src == me && d.bytes.len() == 1280) {
                            self.count("responses_of_exactly_1280_bytes");
                        }
                        if count > 30 {
                            self.count("response_bursts_above_30_datagrams");
                        }
                    } else {
                        let detail = format!("node {i} holds a session with {} but emitted {sent} of the {count} response datagram(s) its application handed over", addr.socket_addr);
                        self.violate("C20", "each delivered request leads to exactly one response to the node address it came from", "response-not-sent", detail.clone());
                        self.violate("C14", "every request is answered: all response packets handed over by the application are put on the wire", "response-not-sent", detail);
                    }
                }
            }
        }

        /* C13: exemptions = outstanding requests + outstanding challenges */
        if self.monitors.c13 {
            for i in 0..self.nodes.len() {
                if let Some(s) = &post[i] {
                    let mut want: BTreeMap<SocketAddr, usize> = BTreeMap::new();
                    for a in &s.active_requests {
                        *want.entry(a.addr.socket_addr).or_insert(0) += 1;
                    }
                    for c in &s.challenges {
                        *want.entry(c.addr.socket_addr).or_insert(0) += 1;
                    }
                    let got: BTreeMap<SocketAddr, usize> = self.nodes[i].wire.exemptions().into_iter().collect();
                    if got != want {
                        self.violate("C13", "the number of exemptions for an address equals the number of outstanding requests and challenges", "exemption-mismatch", format!("node {i}: exemptions {:?}, outstanding {:?} (after {:?})", got, want, ev));
                    }
                    // (iii) nothing stays outstanding once its answer was consumed
                    for a in s.active_requests.iter().filter(|a| a.internal) {
                        if let Some((_, _, true)) = self.internal.get(&(i, a.id.clone())) {
                            self.violate("C13", "an address is exempt only while this node is waiting for something from it", "answered-request-still-active", format!("node {i}: internal request to {} still outstanding after its answer was consumed", a.addr.socket_addr));
                        }
                    }
                    if !want.is_empty() {
                        self.count("states_with_exemptions");
                    }
                }
            }
        }

        /* C03: key material changes only by consuming an outstanding challenge / answering a
           WHOAREYOU for an in-flight request */
        if self.monitors.c03 {
            for i in 0..self.nodes.len() {
                if restarted == Some(i) {
                    continue;
                }
                let before = key_material(&pre[i]);
                let after = key_material(&post[i]);
                for (peer, enc, _dec) in after.difference(&before) {
                    let recipient_ok = self.delivered_now.iter().any(|(to, kind, src, claimed, _)| {
                        *to == i && *kind == 2 && src == peer && pre[i].as_ref().map(|p| p.challenges.iter().any(|c| c.addr.socket_addr == *src && Some(c.addr.node_id) == *claimed)).unwrap_or(false)
                    });
                    let initiator_ok = self.delivered_now.iter().any(|(to, kind, src, _, nonce)| {
                        *to == i && *kind == 1 && src == peer && pre[i].as_ref().map(|p| p.active_requests.iter().any(|a| a.addr.socket_addr == *src && a.nonce == *nonce && !a.handshake_sent)).unwrap_or(false)
                    });
                    // a challenge answered after its expiry must not establish anything
                    if recipient_ok {
                        for (to, kind, src, claimed, _) in self.delivered_now.clone() {
                            if to == i && kind == 2 && src == *peer {
                                if let Some(c) = pre[i].as_ref().and_then(|p| p.challenges.iter().find(|c| c.addr.socket_addr == src && Some(c.addr.node_id) == claimed)) {
                                    let age = self.challenge_seen.get(&c.challenge_data).map(|t| now.saturating_duration_since(*t)).unwrap_or_default();
                                    if age > REQUEST_TIMEOUT + Duration::from_millis(50) {
                                        self.violate("C03", "answering after the challenge expired never creates or re-keys a session", "expired-challenge-accepted", format!("node {i}: handshake accepted for a challenge issued {:?} ago (lifetime {:?})", age, REQUEST_TIMEOUT));
                                    }
                                }
                            }
                        }
                    }
                    if recipient_ok || initiator_ok {
                        self.count("session_keys_established");
                    } else {
                        self.violate("C03", "a session is created or re-keyed only by a handshake answering an outstanding WHOAREYOU (or by answering a WHOAREYOU for an in-flight request)", "unsolicited-rekey", format!("node {i}: new key material {} for {peer} after {:?}", hex::encode(&enc[..4]), ev));
                    }
                }
                // a handshake datagram that answers no outstanding challenge changes nothing: in
                // particular it does not bring retained previous keys back as the current ones
                // (only a *message* under the previous keys does that, by design)
                if let (Some(p), Some(q)) = (&pre[i], &post[i]) {
                    for (to, kind, src, claimed, _) in self.delivered_now.clone() {
                        if to != i || kind != 2 {
                            continue;
                        }
                        let challenged = p.challenges.iter().any(|c| c.addr.socket_addr == src && Some(c.addr.node_id) == claimed);
                        let only_handshakes = self.delivered_now.iter().filter(|d| d.0 == i && d.2 == src).all(|d| d.1 == 2);
                        if challenged || !only_handshakes {
                            continue;
                        }
                        let cur = |s: &HandlerSnapshot| s.sessions.iter().find(|x| x.addr.socket_addr == src).map(|x| (x.encryption_key, x.decryption_key));
                        if let (Some(b), Some(a)) = (cur(p), cur(q)) {
                            if a != b {
                                self.violate("C03", "replaying the same or an earlier handshake never creates or re-keys a session", "unchallenged-handshake-rekeyed", format!("node {i}: the current keys of its session with {src} changed from {} to {} in a step that only delivered a handshake datagram answering no outstanding WHOAREYOU ({:?})", hex::encode(&b.0[..4]), hex::encode(&a.0[..4]), ev));
                            } else {
                                self.count("unchallenged_handshakes_ignored");
                            }
                        }
                    }
                }
                // a consumed challenge must be gone
                for (to, kind, src, claimed, _) in self.delivered_now.clone() {
                    if to == i && kind == 2 && !after.is_subset(&before) {
                        if let (Some(p), Some(q)) = (&pre[i], &post[i]) {
                            if let Some(c) = p.challenges.iter().find(|c| c.addr.socket_addr == src && Some(c.addr.node_id) == claimed) {
                                if q.challenges.iter().any(|x| x.challenge_data == c.challenge_data) {
                                    self.violate("C03", "accepting a handshake consumes the challenge", "challenge-not-consumed", format!("node {i}"));
                                }
                            }
                        }
                    }
                }
                // handshake emission rule
                let my_addr = self.nodes[i].addr;
                for d in emitted.iter().filter(|d| d.kind == 2 && d.src == my_addr) {
                    let ok = self.delivered_now.iter().any(|(to, kind, src, _, nonce)| {
                        *to == i && *kind == 1 && *src == d.dst && pre[i].as_ref().map(|p| p.active_requests.iter().any(|a| a.addr.socket_addr == *src && a.nonce == *nonce && !a.handshake_sent)).unwrap_or(false)
                    });
                    // retransmission of an earlier handshake packet by the request timer
                    let retransmit = self.log[..self.log_mark].iter().any(|o| o.bytes == d.bytes);
                    if ok {
                        self.count("handshakes_sent");
                    } else if !retransmit {
                        self.violate("C03", "a WHOAREYOU is acted on only if it echoes the nonce of a request in flight to the address it came from", "unsolicited-handshake", format!("node {i} sent a handshake to {} after {:?}", d.dst, ev));
                    }
                }
            }
        }

        /* C15: expiry and capacity */
        if self.monitors.c15 {
            if let Some(timeout) = self.cfg.session_timeout {
                for i in 0..self.nodes.len() {
                    if restarted == Some(i) {
                        continue;
                    }
                    if let Some(p) = &pre[i] {
                        let age = now.saturating_duration_since(p.published);
                        for sess in &p.sessions {
                            // idle time at the moment the step's event was processed
                            let idle = sess.idle + age;
                            if idle <= timeout {
                                continue;
                            }
                            self.count("steps_with_expired_session");
                            let my_addr = self.nodes[i].addr;
                            for d in emitted.iter().filter(|d| d.src == my_addr && d.kind == 0) {
                                let (_, key) = self.read(d);
                                if key == Some(sess.encryption_key) {
                                    self.violate("C15", "a session unused for longer than the session timeout is never used again to encrypt a message", "expired-session-encrypts", format!("node {i} sent a message to {} under a session idle for {:?} (timeout {:?})", sess.addr.socket_addr, idle, timeout));
                                }
                            }
                            let peer_name = self.name_of(&sess.addr.node_id);
                            let accepted = self.last_events[i].iter().any(|e| (e.starts_with("Request(") || e.starts_with("Response(")) && e.contains(&format!("({peer_name},")));
                            let same_keys = post[i].as_ref().map(|q| q.sessions.iter().any(|x| x.addr == sess.addr && x.decryption_key == sess.decryption_key)).unwrap_or(false);
                            let rekeyed = !key_material(&post[i]).is_subset(&key_material(&pre[i]));
                            if accepted && same_keys && !rekeyed {
                                self.violate("C15", "a session unused for longer than the session timeout is never used again to accept a message", "expired-session-accepts", format!("node {i} accepted a message from {} under a session idle for {:?}", sess.addr.socket_addr, idle));
                            }
                        }
                    }
                }
            }
            if let Some(cap) = self.cfg.session_capacity {
                for i in 0..self.nodes.len() {
                    if let (Some(p), Some(q)) = (&pre[i], &post[i]) {
                        if q.sessions.len() > cap {
                            self.violate("C15", "the number of sessions held never exceeds the configured capacity", "over-capacity", format!("node {i}: {} sessions, capacity {cap}", q.sessions.len()));
                        }
                        let pre_peers: Vec<&NodeAddress> = p.sessions.iter().map(|s| &s.addr).collect();
                        let post_peers: Vec<&NodeAddress> = q.sessions.iter().map(|s| &s.addr).collect();
                        let added: Vec<_> = post_peers.iter().filter(|a| !pre_peers.contains(a)).collect();
                        let missing: Vec<_> = pre_peers.iter().filter(|a| !post_peers.contains(a)).collect();
                        if std::env::var("VERIF_DEBUG").is_ok() && (!added.is_empty() || !missing.is_empty()) {
                            eprintln!("   [capacity] node {i}: pre {:?} post {:?} cap {cap}", pre_peers.iter().map(|a| a.socket_addr).collect::<Vec<_>>(), post_peers.iter().map(|a| a.socket_addr).collect::<Vec<_>>());
                        }
                        if p.sessions.len() == cap && added.len() == 1 && missing.len() == 1 {
                            self.count("capacity_evictions");
                            if *missing[0] != pre_peers[0] {
                                self.violate("C15", "when the capacity is reached the least recently used session is dropped", "wrong-victim", format!("node {i}: dropped {} but least recently used was {}", missing[0].socket_addr, pre_peers[0].socket_addr));
                            }
                            // the same by the harness' own record of real uses
                            let key_of = |a: &NodeAddress| p.sessions.iter().find(|s| &s.addr == a).map(|s| s.encryption_key).unwrap_or([0; 16]);
                            let lu = |a: &NodeAddress| use_before.get(&(i, key_of(a))).copied().unwrap_or(self.t0);
                            let oldest = pre_peers.iter().min_by_key(|a| lu(a));
                            if let Some(o) = oldest {
                                if lu(missing[0]) > lu(o) + Duration::from_millis(5) {
                                    self.violate("C15", "when the capacity is reached the least recently used session is dropped", "wrong-victim-by-use", format!("node {i}: dropped {} (last really used {:?} ago) although {} was last used {:?} ago", missing[0].socket_addr, now.saturating_duration_since(lu(missing[0])), o.socket_addr, now.saturating_duration_since(lu(o))));
                                }
                            }
                        }
                    }
                }
            }
        }
        self.prev_snaps = post;
    }

    /// Clauses that must hold once nothing is left to happen.
    pub fn leaf_check(&mut self) {
        if self.monitors.c04 {
            for k in 0..self.ledger.len() {
                let l = self.ledger[k].clone();
                if !self.submitted[k] || l.cancelled {
                    continue;
                }
                let terminal = l.complete as usize + l.failures.len();
                if terminal == 0 {
                    self.violate("C04", "every request ends in exactly one terminal outcome", "no-outcome", format!("request {k} ({:?}) has neither response nor failure although nothing is outstanding; partial responses {}", self.cfg.workload[k], l.responses));
                }
            }
        }
        if self.monitors.c13 {
            for i in 0..self.nodes.len() {
                let ex = self.nodes[i].wire.exemptions();
                if !ex.is_empty() {
                    self.violate("C13", "once every request completed or failed and every challenge was answered or expired, no exemption remains", "exemption-left", format!("node {i}: {:?}", ex));
                }
            }
        }
    }

    pub fn fingerprint(&self) -> u128 {
        let idclass = |id: &Vec<u8>| -> i32 { (0..self.cfg.workload.len()).find(|k| workload_id(*k) == *id).map(|k| k as i32).unwrap_or(-1) };
        // peers are named by their literal socket address and node id (both are fixed by the
        // harness): two parties claiming different ids from one address, or one id seen at two
        // spellings of an address, are different peers
        let peer = |a: &SocketAddr| -> String { a.to_string() };
        let pa = |a: &NodeAddress| -> (String, [u8; 4]) { (a.socket_addr.to_string(), [a.node_id.raw()[0], a.node_id.raw()[1], a.node_id.raw()[2], a.node_id.raw()[3]]) };
        // rank order of all pending deadlines
        let mut deadlines: Vec<Duration> = vec![];
        let snaps: Vec<Option<HandlerSnapshot>> = (0..self.nodes.len()).map(|i| self.snap(i)).collect();
        for s in snaps.iter().flatten() {
            let age = s.published.elapsed();
            for r in s.active_requests.iter().filter_map(|a| a.remaining).chain(s.challenges.iter().filter_map(|c| c.remaining)) {
                deadlines.push(r.saturating_sub(age));
            }
        }
        deadlines.sort();
        deadlines.dedup();
        let rank = |r: Option<Duration>, age: Duration| -> i32 { r.map(|r| deadlines.iter().position(|d| *d == r.saturating_sub(age)).map(|p| p as i32).unwrap_or(-2)).unwrap_or(-1) };
        let mut nodes = vec![];
        for (i, s) in snaps.iter().enumerate() {
            let n = &self.nodes[i];
            if let Some(s) = s {
                let age = s.published.elapsed();
                let timeout = self.cfg.session_timeout;
                // idle time in quarters of the session timeout (not just "expired or not": how long a
                // live session has been idle decides what the next idle period does to it)
                let sessions: Vec<((String, [u8; 4]), bool, bool, u64)> = s
                    .sessions
                    .iter()
                    .map(|x| (pa(&x.addr), x.old_keys.is_some(), x.awaiting_enr.is_some(), timeout.map(|t| (((x.idle + age).as_millis() * 4) / t.as_millis().max(1)).min(9) as u64).unwrap_or(0)))
                    .collect();
                let mut active: Vec<((String, [u8; 4]), i32, bool, bool, u8, Option<u64>, i32)> = s.active_requests.iter().map(|a| (pa(&a.addr), idclass(&a.id), a.handshake_sent, a.initiating_session, a.retries, a.remaining_responses, rank(a.remaining, age))).collect();
                active.sort();
                let pending: Vec<((String, [u8; 4]), Vec<i32>)> = s.pending_requests.iter().map(|(a, ids)| (pa(a), ids.iter().map(|(id, _)| idclass(id)).collect())).collect();
                // absolute time is abstracted to the rank order of deadlines, except for what that would
                // hide: a challenge whose deadline now lies beyond (first seen + lifetime) was refreshed
                let now = Instant::now();
                let challenges: Vec<((String, [u8; 4]), bool, i32, bool)> = s
                    .challenges
                    .iter()
                    .map(|c| {
                        let seen = self.challenge_seen.get(&c.challenge_data).copied().unwrap_or(now);
                        let extended = c.remaining.map(|r| now.saturating_duration_since(seen) + r.saturating_sub(age) > REQUEST_TIMEOUT + Duration::from_millis(50)).unwrap_or(false);
                        (pa(&c.addr), c.remote_enr_seq.is_some(), rank(c.remaining, age), extended)
                    })
                    .collect();
                let ex: Vec<(String, usize)> = n.wire.exemptions().iter().map(|(a, c)| (peer(a), *c)).collect();
                let ways: Vec<(String, [u8; 4])> = n.way_queries.iter().map(|w| pa(&w.0)).collect();
                let inbound: Vec<((String, [u8; 4]), i32)> = n.inbound.iter().map(|(a, r)| (pa(a), idclass(&r.id.0))).collect();
                nodes.push((n.generation, sessions, active, pending, challenges, ex, ways, inbound));
            }
        }
        let inflight: Vec<(String, String, u8, Plain)> = self
            .inflight
            .iter()
            .map(|d| {
                let (p, _) = self.read(d);
                let p = match p {
                    Plain::Request(id, b) => Plain::Request(vec![idclass(&id) as u8], b),
                    Plain::Response(id, b) => Plain::Response(vec![idclass(&id) as u8], b),
                    Plain::Opaque => Plain::Opaque,
                };
                (peer(&d.src), peer(&d.dst), d.kind, p)
            })
            .collect();
        let ledger: Vec<(u64, bool, usize, bool, bool)> = self.ledger.iter().map(|l| (l.responses, l.complete, l.failures.len(), l.cancelled, l.answer_delivered)).collect();
        mc::fp_of(&(nodes, inflight, &self.submitted, ledger))
    }
}

/* ------------------------------------------------------------------------------------ */
/* Generic runner: replay a history, then complete by the default policy                 */
/* ------------------------------------------------------------------------------------ */

pub struct RunOut {
    pub outcome: mc::Outcome<Ev>,
}

pub async fn run_history(cfg: &HCfg, monitors: Monitors, hist: &[Ev], complete: bool) -> mc::Outcome<Ev> {
    run_history_with(cfg, monitors, hist, complete, &NoDriver).await
}

thread_local! {
    /// Set by the regression replayer: a recorded event that is not enabled ends the replay there.
    pub static LENIENT_REPLAY: std::cell::Cell<bool> = const { std::cell::Cell::new(false) };
}

pub fn enabled_with(w: &World, driver: &dyn Driver) -> Vec<(Ev, u32)> {
    let mut e = w.enabled();
    for x in driver.ext_enabled(w) {
        if !e.iter().any(|(y, _)| *y == x.0) {
            e.push(x);
        }
    }
    e
}

pub async fn run_history_with(cfg: &HCfg, monitors: Monitors, hist: &[Ev], complete: bool, driver: &dyn Driver) -> mc::Outcome<Ev> {
    let mut w = World::build(cfg, monitors).await;
    let mut chain = vec![];
    let mut prev = None;
    let mut steps = 0u64;
    let mut violation: Option<Violation> = None;
    for (i, ev) in hist.iter().enumerate() {
        if i + 1 == hist.len() {
            w.counters.clear();
        }
        // replay guard: the event must be enabled in the state reached
        if !enabled_with(&w, driver).iter().any(|(e, _)| e == ev) {
            if LENIENT_REPLAY.with(|l| l.get()) {
                // regression replays: on a repaired tree the recorded path may no longer exist
                break;
            }
            mc::machinery(&format!("replay divergence: {:?} not enabled after {:?}", ev, &hist[..i]));
        }
        let obs = w.step(ev, driver).await;
        steps += 1;
        let c = mc::chain(prev, &obs);
        chain.push(c);
        prev = Some(c);
        if let Some(v) = w.violations.first().cloned() {
            violation = Some(v);
            break;
        }
    }
    let fp = mc::fp_of(&(w.fingerprint(), driver.fingerprint_extra(&w)));
    let enabled = if violation.is_none() { enabled_with(&w, driver) } else { vec![] };
    let counters = std::mem::take(&mut w.counters);
    let mut terminal = None;
    if violation.is_none() && complete {
        let mut n = 0;
        while let Some(ev) = w.default_event() {
            n += 1;
            if n > 300 {
                mc::machinery(&format!("no leaf within 300 default steps after {:?}", hist));
            }
            w.step(&ev, driver).await;
            steps += 1;
            if !w.violations.is_empty() {
                break;
            }
        }
        if w.violations.is_empty() {
            w.leaf_check();
            driver.leaf_check(&mut w);
        }
        if let Some(v) = w.violations.first().cloned() {
            violation = Some(v);
        }
        terminal = Some(format!("{:?}", w.ledger.iter().map(|l| (l.complete, l.failures.clone(), l.cancelled)).collect::<Vec<_>>()));
    }
    if let Some(v) = violation.as_mut() {
        v.replay = json!({"engine":"hsim","cfg":format!("{:?}",cfg),"history":format!("{:?}",hist),"also":w.violations.iter().map(|x| x.key.clone()).collect::<Vec<_>>()});
        v.detail = format!("{} [history {:?}]", v.detail, hist);
    }
    // tear down: handlers exit when their channels drop with the runtime
    for n in w.nodes.iter_mut() {
        if let Some(e) = n.exit.take() {
            let _ = e.send(());
        }
    }
    mc::Outcome { fp, enabled, obs_chain: chain, violation, counters, terminal, steps }
}

/* ------------------------------------------------------------------------------------ */
/* Replay support                                                                        */
/* ------------------------------------------------------------------------------------ */

pub fn parse_history(s: &str) -> Vec<Ev> {
    let inner = s.trim().trim_start_matches('[').trim_end_matches(']');
    let mut out = vec![];
    let mut depth = 0;
    let mut cur = String::new();
    for ch in inner.chars() {
        match ch {
            '(' => { depth += 1; cur.push(ch); }
            ')' => { depth -= 1; cur.push(ch); }
            ',' if depth == 0 => { out.push(cur.trim().to_string()); cur.clear(); }
            _ => cur.push(ch),
        }
    }
    if !cur.trim().is_empty() {
        out.push(cur.trim().to_string());
    }
    out.iter()
        .map(|t| {
            let (name, args) = match t.find('(') {
                Some(i) => (&t[..i], t[i + 1..t.len() - 1].split(',').map(|x| x.trim().to_string()).collect::<Vec<_>>()),
                None => (&t[..], vec![]),
            };
            let n = |i: usize| args[i].parse::<usize>().expect("number");
            match name {
                "Submit" => Ev::Submit(n(0)),
                "Deliver" => Ev::Deliver(n(0)),
                "Drop" => Ev::Drop(n(0)),
                "Dup" => Ev::Dup(n(0)),
                "AnsWay" => Ev::AnsWay(n(0), args[1] == "true"),
                "Respond" => Ev::Respond(n(0)),
                "Timer" => Ev::Timer,
                "Idle" => Ev::Idle(n(0) as u64),
                "Restart" => Ev::Restart(n(0)),
                "Ext" => Ev::Ext(n(0) as u32),
                other => mc::machinery(&format!("cannot parse event {other}")),
            }
        })
        .collect()
}

/// Replays a history step by step, printing what every node did; then the default continuation.
pub async fn replay_verbose(cfg: &HCfg, monitors: Monitors, hist: &[Ev], driver: &dyn Driver) {
    let mut w = World::build(cfg, monitors).await;
    let mut show = |w: &World, ev: &Ev| {
        println!("== {:?}  (t = {:?})", ev, w.t0.elapsed());
        for (i, e) in w.last_events.iter().enumerate() {
            for x in e {
                println!("   app N{i}: {x}");
            }
        }
        for d in &w.log[w.log_mark..] {
            let (p, _) = w.read(d);
            println!("   wire {} -> {}: kind {} {:?}", d.src, d.dst, d.kind, p);
        }
        for i in 0..w.nodes.len() {
            if let Some(s) = w.snap(i) {
                println!("   N{i}: sessions {} active {:?} pending {:?} challenges {:?} exemptions {:?}", s.sessions.len(), s.active_requests.iter().map(|a| (w.id_name(&a.id), a.handshake_sent, a.retries, a.remaining)).collect::<Vec<_>>(), s.pending_requests.iter().map(|(_, v)| v.len()).collect::<Vec<_>>(), s.challenges.iter().map(|c| c.remaining.map(|r| r.saturating_sub(s.published.elapsed()))).collect::<Vec<_>>(), w.nodes[i].wire.exemptions());
            }
        }
    };
    for ev in hist {
        w.step(ev, driver).await;
        show(&w, ev);
        if let Some(v) = w.violations.first() {
            println!("VIOLATION {}: {} — {}", v.key, v.clause, v.detail);
            return;
        }
    }
    println!("-- default continuation --");
    let mut n = 0;
    while let Some(ev) = w.default_event() {
        n += 1;
        if n > 300 {
            println!("no leaf within 300 steps");
            return;
        }
        w.step(&ev, driver).await;
        show(&w, &ev);
        if let Some(v) = w.violations.first() {
            println!("VIOLATION {}: {} — {}", v.key, v.clause, v.detail);
            return;
        }
    }
    w.leaf_check();
    driver.leaf_check(&mut w);
    match w.violations.first() {
        Some(v) => println!("VIOLATION {}: {} — {}", v.key, v.clause, v.detail),
        None => println!("leaf reached, no violation; ledger {:?}", w.ledger.iter().map(|l| (l.complete, l.failures.clone())).collect::<Vec<_>>()),
    }
}
