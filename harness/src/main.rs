mod clock;
mod mc;
mod rt;
mod util;
mod smoke;
mod codec;
mod table;
mod query;
mod filter;
mod lru;
mod snode;
mod ssim;
mod nodes;
mod admission;
mod hsim;
mod hdrive;
mod attack;
mod expiry;
mod tamper;
mod lookup;

fn main() {
    clock::self_test();
    mc::install_panic_hook();
    let args: Vec<String> = std::env::args().skip(1).collect();
    let cmd = args.first().map(|s| s.as_str()).unwrap_or("");
    let tier = args.get(1).map(|s| s.as_str()).unwrap_or("quick");
    let tier = std::env::var("VERIF_TIER").unwrap_or_else(|_| tier.to_string());
    std::env::set_var("VERIF_TIER_ARG", &tier);
    // safety net: a panic raised inside the crate under test that no engine caught is still a
    // verdict about the subject, not a crash of the machinery
    let cmd_owned = cmd.to_string();
    let r = mc::catch_subject_panic(|| dispatch(&cmd_owned, &args));
    if let Err((loc, msg)) = r {
        let _ = std::fs::create_dir_all(format!("{}/replays", mc::out_dir()));
        let path = format!("{}/replays/{}-panic.json", mc::out_dir(), cmd_owned);
        let _ = std::fs::write(&path, serde_json::to_string_pretty(&serde_json::json!({"property": cmd_owned, "clause": "the implementation never panics", "key": format!("panic:{loc}"), "detail": msg, "replay": {"engine": "any"}})).unwrap());
        println!("VIOLATION property={} replay={}", cmd_owned, path);
        println!("  clause: the implementation never panics\n  key: panic:{loc}\n  detail: {msg}");
        std::process::exit(1);
    }
}

fn dispatch(cmd: &str, args: &[String]) {
    let args: Vec<String> = args.to_vec();
    match cmd {
        "smoke" => smoke::run(),
        "C05" => codec::run_c05(),
        "C06" => codec::run_c06(),
        "C07" => table::run_c07_c08("C07"),
        "C08" => table::run_c07_c08("C08"),
        "C16" => table::run_c16(),
        "qdebug" => query::debug_one(),
        "ldebug" => lookup::debug(),
        "C18" => filter::run(),
        "C20" => ssim::run_c20(),
        "C14" => ssim::run_c14(),
        "C17" => ssim::run_c17(),
        "C11" => nodes::run(&args),
        "C12" => admission::run(),
        "C01" => attack::run_c01(),
        "C15" => expiry::run(),
        "C02" => tamper::run(),
        "C04" => hdrive::run("C04"),
        "C13" => hdrive::run("C13"),
        "C03" => hdrive::run("C03"),
        "C19" => hdrive::run("C19"),
        "c17debug" => ssim::debug_c17(),
        "C09" => query::run("C09"),
        "C10" => query::run("C10"),
        "replay" => replay(&args),
        "regressions" => regressions(),
        _ => {
            eprintln!("unknown command {cmd}");
            std::process::exit(2);
        }
    }
}

fn replay(args: &[String]) {
    let path = args.get(1).expect("replay <path>");
    let v: serde_json::Value = serde_json::from_str(&std::fs::read_to_string(path).expect("readable")).expect("json");
    let prop = v["property"].as_str().unwrap_or("");
    println!("replaying {} clause={} key={}", prop, v["clause"], v["key"]);
    println!("recorded detail: {}", v["detail"]);
    match v["replay"]["engine"].as_str().unwrap_or("") {
        "codec" => codec::replay(v["replay"]["check"].as_str().unwrap_or(""), &v["replay"]),
        "hsim" => match v["replay"]["driver"].as_str().unwrap_or("") {
            "hdrive" => hdrive::replay(&v["replay"], prop),
            "attack" => attack::replay(&v["replay"], prop),
            "expiry" => expiry::replay(&v["replay"]),
            "tamper" => tamper::replay(&v["replay"]),
            d => { eprintln!("no replayer for hsim driver {d}"); std::process::exit(2); }
        },
        e => {
            // the searches are deterministic and breadth-first: re-running the check reproduces this
            // (shortest) counterexample; the payload below identifies configuration and history
            println!("engine {e}: no step-by-step replayer; recorded configuration and history:");
            println!("{}", serde_json::to_string_pretty(&v["replay"]).unwrap_or_default());
            println!("re-run: ./check {prop} quick");
        }
    }
}

/// Re-executes the committed counterexamples of repaired defects (handler worlds and codec) and
/// fails if one of them violates again.
fn regressions() {
    let mut bad = 0;
    let mut ran = 0;
    let mut skipped = 0;
    let mut files: Vec<_> = std::fs::read_dir("/verif/regressions").map(|d| d.filter_map(|e| e.ok()).map(|e| e.path()).collect()).unwrap_or_default();
    files.sort();
    for f in files {
        let v: serde_json::Value = match std::fs::read_to_string(&f).ok().and_then(|s| serde_json::from_str(&s).ok()) {
            Some(v) => v,
            None => continue,
        };
        let prop = v["property"].as_str().unwrap_or("").to_string();
        let r = &v["replay"];
        hsim::LENIENT_REPLAY.with(|l| l.set(true));
        let outcome: Option<bool> = match (r["engine"].as_str().unwrap_or(""), r["driver"].as_str().unwrap_or("")) {
            ("hsim", "hdrive") => Some(hdrive::regression_holds(r, &prop)),
            ("hsim", "attack") => Some(attack::regression_holds(r, &prop)),
            ("hsim", "expiry") => Some(expiry::regression_holds(r)),
            _ => None,
        };
        match outcome {
            Some(true) => {
                ran += 1;
                println!("ok      {}", f.display());
            }
            Some(false) => {
                ran += 1;
                bad += 1;
                println!("VIOLATION property={} replay={}", prop, f.display());
            }
            None => {
                skipped += 1;
                println!("skipped {} (re-run ./check {} quick)", f.display(), prop);
            }
        }
    }
    println!("regressions: {ran} replayed, {bad} violating, {skipped} skipped");
    std::process::exit(if bad == 0 { 0 } else { 1 });
}
