//! Shared explorer machinery: parallel map, history-replay BFS with a deviation budget,
//! deterministic fingerprints, violation / known-finding reporting and evidence files.
use serde_json::{json, Value};
use std::collections::{BTreeMap, HashMap};
use std::fmt::Debug;
use std::hash::{Hash, Hasher};
use std::sync::atomic::{AtomicUsize, Ordering};
use std::sync::Mutex;

pub const EXIT_OK: i32 = 0;
pub const EXIT_VIOLATION: i32 = 1;
pub const EXIT_MACHINERY: i32 = 2;

/// Wall-clock budget of an exploration: `quick_s` in the quick tier; in the thorough tier
/// `share` of VERIF_THOROUGH_S (default 720 s).
pub fn budget(thorough: bool, quick_s: f64, share: f64) -> f64 {
    if !thorough {
        // Quick tiers are defined by their bounds (depth, deviations, alphabets), not by time: the
        // figure passed in is the wall time the bounded search needs on an idle 16-core machine,
        // the cap is four times that so that a loaded machine still completes the bound.
        let scale: f64 = std::env::var("VERIF_QUICK_SCALE").ok().and_then(|v| v.parse().ok()).unwrap_or(4.0);
        return quick_s * scale;
    }
    let total: f64 = std::env::var("VERIF_THOROUGH_S").ok().and_then(|v| v.parse().ok()).unwrap_or(720.0);
    total * share
}

pub fn machinery(msg: &str) -> ! {
    // a task of the crate under test that panicked (tokio swallows the panic of a spawned task)
    // usually shows up as a closed channel or a missing answer: that is a verdict, not a crash
    check_subject_panic();
    eprintln!("MACHINERY: {msg}");
    println!("MACHINERY-ERROR {msg}");
    std::process::exit(EXIT_MACHINERY);
}

/* ------------------------------------------------------------------------------------ */
/* Panics: a panic raised inside the crate under test is a verdict, anything else is a   */
/* machinery error                                                                       */
/* ------------------------------------------------------------------------------------ */

thread_local! {
    static LAST_PANIC: std::cell::RefCell<Option<(String, String)>> = const { std::cell::RefCell::new(None) };
    static QUIET_PANICS: std::cell::Cell<bool> = const { std::cell::Cell::new(false) };
}

/// Silences (true) or restores (false) the printing of panics on this thread; their location is
/// recorded either way.
pub fn quiet_panics(q: bool) {
    QUIET_PANICS.with(|c| c.set(q));
}

pub fn install_panic_hook() {
    let default = std::panic::take_hook();
    std::panic::set_hook(Box::new(move |info| {
        let loc = info.location().map(|l| format!("{}:{}", l.file(), l.line())).unwrap_or_default();
        let msg = info.payload().downcast_ref::<&str>().map(|s| s.to_string()).or_else(|| info.payload().downcast_ref::<String>().cloned()).unwrap_or_default();
        LAST_PANIC.with(|p| *p.borrow_mut() = Some((loc, msg)));
        if !QUIET_PANICS.with(|q| q.get()) {
            default(info);
        }
    }));
}

fn is_subject_location(loc: &str) -> bool {
    // the crate under test is a path dependency (absolute location); the harness' own files are
    // relative ("src/…"); a panic inside a registry crate was reached through either and is
    // attributed to the subject (the harness only feeds those crates fixed, valid inputs)
    loc.starts_with("/repo/") || loc.contains("/.cargo/registry/")
}

/// If a panic located in the crate under test was recorded on this thread since the current
/// execution began (e.g. inside a spawned task, where tokio catches it), continue unwinding to the
/// enclosing `catch_subject_panic` without disturbing the recorded location.
pub fn check_subject_panic() {
    let pending = LAST_PANIC.with(|p| p.borrow().as_ref().map(|(l, _)| is_subject_location(l)).unwrap_or(false));
    if pending && IN_CATCH.with(|c| c.get()) {
        std::panic::resume_unwind(Box::new("panic inside a task of the crate under test"));
    }
}

thread_local! {
    static IN_CATCH: std::cell::Cell<bool> = const { std::cell::Cell::new(false) };
}

/// Runs `f`; a panic whose location lies in the crate under test becomes `Err((location, message))`,
/// any other panic is a machinery error.
pub fn catch_subject_panic<R>(f: impl FnOnce() -> R) -> Result<R, (String, String)> {
    let (was_quiet, was_in) = (QUIET_PANICS.with(|q| q.replace(true)), IN_CATCH.with(|c| c.replace(true)));
    LAST_PANIC.with(|p| *p.borrow_mut() = None);
    let r = std::panic::catch_unwind(std::panic::AssertUnwindSafe(f));
    QUIET_PANICS.with(|q| q.set(was_quiet));
    IN_CATCH.with(|c| c.set(was_in));
    match r {
        Ok(v) => Ok(v),
        Err(_) => {
            let (loc, msg) = LAST_PANIC.with(|p| p.borrow_mut().take()).unwrap_or_default();
            if is_subject_location(&loc) {
                Err((loc, msg))
            } else {
                machinery(&format!("harness panic at {loc}: {msg}"))
            }
        }
    }
}

/* ------------------------------------------------------------------------------------ */
/* Deterministic hashing                                                                 */
/* ------------------------------------------------------------------------------------ */

/// FNV-1a, 128 bit: deterministic across runs and threads (no RandomState).
#[derive(Clone)]
pub struct Fp(u128);
impl Default for Fp {
    fn default() -> Self {
        Fp(0x6c62272e07bb014262b821756295c58d)
    }
}
impl Hasher for Fp {
    fn finish(&self) -> u64 {
        (self.0 ^ (self.0 >> 64)) as u64
    }
    fn write(&mut self, bytes: &[u8]) {
        for b in bytes {
            self.0 ^= *b as u128;
            self.0 = self.0.wrapping_mul(0x0000000001000000000000000000013b);
        }
    }
}
impl Fp {
    pub fn value(&self) -> u128 {
        self.0
    }
}
pub fn fp_of<T: Hash>(t: &T) -> u128 {
    let mut h = Fp::default();
    t.hash(&mut h);
    h.value()
}
pub fn fp_str(s: &str) -> u128 {
    let mut h = Fp::default();
    h.write(s.as_bytes());
    h.value()
}
pub fn hex128(v: u128) -> String {
    format!("{:016x}", (v ^ (v >> 64)) as u64)
}

/* ------------------------------------------------------------------------------------ */
/* Parallel map                                                                          */
/* ------------------------------------------------------------------------------------ */

pub fn threads() -> usize {
    std::env::var("VERIF_THREADS")
        .ok()
        .and_then(|v| v.parse().ok())
        .unwrap_or_else(|| std::thread::available_parallelism().map(|n| n.get()).unwrap_or(4))
        .max(1)
}

/// Applies `f` to every item on a pool of OS threads; results come back in input order.
/// A panic in `f` is a machinery error (engines wrap the subject in `catch_unwind` themselves
/// where a panic is a verdict).
pub fn par_map<T: Sync, R: Send>(items: &[T], f: impl Fn(&T) -> R + Sync) -> Vec<R> {
    let n = threads().min(items.len().max(1));
    if n <= 1 || items.len() < 2 {
        return items.iter().map(|t| f(t)).collect();
    }
    let next = AtomicUsize::new(0);
    let out: Mutex<Vec<Option<R>>> = Mutex::new((0..items.len()).map(|_| None).collect());
    std::thread::scope(|s| {
        for _ in 0..n {
            s.spawn(|| loop {
                let i = next.fetch_add(1, Ordering::Relaxed);
                if i >= items.len() {
                    break;
                }
                let r = f(&items[i]);
                out.lock().unwrap()[i] = Some(r);
            });
        }
    });
    out.into_inner()
        .unwrap()
        .into_iter()
        .map(|r| r.expect("worker died"))
        .collect()
}

/* ------------------------------------------------------------------------------------ */
/* Violations, known findings, evidence                                                  */
/* ------------------------------------------------------------------------------------ */

#[derive(Debug, Clone)]
pub struct Violation {
    /// Which clause of the property failed (short, stable).
    pub clause: String,
    /// Stable key of the failing input / call site / history shape: identifies the finding.
    pub key: String,
    /// Human-readable detail.
    pub detail: String,
    /// Replay payload (engine, config, history ...).
    pub replay: Value,
}

pub struct Report {
    pub property: String,
    pub tier: String,
    pub seed: i64,
    pub level: String,
    pub start_wall: f64,
    pub coverage: BTreeMap<String, Value>,
    pub assumptions: Vec<String>,
    pub samples: Vec<Value>,
    new_violations: usize,
    known_hits: usize,
    seen_sigs: HashMap<String, usize>,
}

/// Where evidence and replay files go (the committed checks use /verif; background runs from a
/// snapshot set VERIF_OUT so that they do not overwrite the evidence of the real tree).
pub fn out_dir() -> String {
    std::env::var("VERIF_OUT").unwrap_or_else(|_| "/verif".to_string())
}

fn known_findings() -> Vec<Value> {
    let path = "/verif/known_findings.json";
    match std::fs::read_to_string(path) {
        Ok(s) => match serde_json::from_str::<Value>(&s) {
            Ok(v) => v["findings"].as_array().cloned().unwrap_or_default(),
            Err(e) => machinery(&format!("known_findings.json unreadable: {e}")),
        },
        Err(_) => vec![],
    }
}

impl Report {
    pub fn new(property: &str, level: &str) -> Self {
        let tier = std::env::var("VERIF_TIER_ARG").unwrap_or_else(|_| "quick".into());
        let seed = std::env::var("VERIF_SEED")
            .ok()
            .and_then(|s| s.parse().ok())
            .unwrap_or(0);
        Report {
            property: property.into(),
            tier,
            seed,
            level: level.into(),
            start_wall: crate::clock::wall(),
            coverage: BTreeMap::new(),
            assumptions: vec![],
            samples: vec![],
            new_violations: 0,
            known_hits: 0,
            seen_sigs: HashMap::new(),
        }
    }

    pub fn thorough(&self) -> bool {
        self.tier == "thorough"
    }

    pub fn set(&mut self, k: &str, v: impl Into<Value>) {
        self.coverage.insert(k.into(), v.into());
    }

    pub fn add(&mut self, k: &str, n: u64) {
        let cur = self.coverage.get(k).and_then(|v| v.as_u64()).unwrap_or(0);
        self.coverage.insert(k.into(), json!(cur + n));
    }

    pub fn get(&self, k: &str) -> u64 {
        self.coverage.get(k).and_then(|v| v.as_u64()).unwrap_or(0)
    }

    pub fn sample(&mut self, v: Value) {
        if self.samples.len() < 12 {
            self.samples.push(v);
        }
    }

    pub fn assume(&mut self, s: &str) {
        if !self.assumptions.iter().any(|a| a == s) {
            self.assumptions.push(s.into());
        }
    }

    /// Records a violation. Identical signatures are reported once per run.
    pub fn violation(&mut self, v: Violation) {
        let sig = hex128(fp_str(&format!("{}|{}|{}", self.property, v.clause, v.key)));
        let n = self.seen_sigs.entry(sig.clone()).or_insert(0);
        *n += 1;
        if *n > 1 {
            return;
        }
        let known = known_findings().into_iter().find(|f| {
            f["status"] == "known"
                && f["property"] == self.property.as_str()
                && f["signature"].as_str().map(|s| s == sig).unwrap_or(false)
        });
        let _ = std::fs::create_dir_all(format!("{}/replays", out_dir()));
        let path = format!("{}/replays/{}-{}.json", out_dir(), self.property, sig);
        let payload = json!({
            "property": self.property, "clause": v.clause, "key": v.key,
            "signature": sig, "detail": v.detail, "replay": v.replay,
        });
        let _ = std::fs::write(&path, serde_json::to_string_pretty(&payload).unwrap());
        if let Some(k) = known {
            self.known_hits += 1;
            println!(
                "KNOWN-FINDING: property={} {} [{}]",
                self.property,
                k["what"].as_str().unwrap_or(&v.key),
                sig
            );
        } else {
            self.new_violations += 1;
            println!("VIOLATION property={} replay={}", self.property, path);
            println!("  clause: {}\n  key: {}\n  detail: {}", v.clause, v.key, v.detail);
        }
    }

    pub fn violations(&self) -> usize {
        self.new_violations
    }

    /// Vacuity guard (only meaningful when the run found no violation: a violation stops the
    /// exploration early, so counters may legitimately be 0 then).
    pub fn vacuous(&self, msg: &str) {
        if self.new_violations == 0 && self.known_hits == 0 {
            machinery(msg);
        }
    }

    /// Vacuity guard: a check whose key activation counter is 0 explored nothing of interest.
    pub fn require_nonzero(&self, keys: &[&str]) {
        for k in keys {
            if self.get(k) == 0 && self.new_violations == 0 {
                machinery(&format!(
                    "vacuous exploration of {}: activation counter '{}' is 0",
                    self.property, k
                ));
            }
        }
    }

    /// Writes /verif/evidence/<id>.json and exits with the verdict.
    pub fn finish(mut self) -> ! {
        let wall = crate::clock::wall() - self.start_wall;
        if self.samples.is_empty() {
            if self.new_violations + self.known_hits > 0 {
                // the search stopped at its first violating level before any sample was taken
                self.samples.push(json!({"note": "search stopped at the first violation; see the replay file"}));
            } else {
                machinery("no samples recorded");
            }
        }
        self.coverage
            .insert("samples".into(), Value::Array(self.samples.clone()));
        self.coverage
            .insert("known_findings_hit".into(), json!(self.known_hits));
        let ev = json!({
            "property_id": self.property,
            "tier": self.tier,
            "seed": self.seed,
            "level": self.level,
            "coverage": self.coverage,
            "assumptions": self.assumptions,
            "wall_s": (wall * 1000.0).round() / 1000.0,
            "violations": self.new_violations,
        });
        let _ = std::fs::create_dir_all(format!("{}/evidence", out_dir()));
        let path = format!("{}/evidence/{}.json", out_dir(), self.property);
        if let Err(e) = std::fs::write(&path, serde_json::to_string_pretty(&ev).unwrap()) {
            machinery(&format!("cannot write {path}: {e}"));
        }
        println!(
            "{} {} tier={} violations={} known={} wall={:.1}s evidence={}",
            self.property,
            if self.new_violations == 0 { "HOLDS" } else { "VIOLATED" },
            self.tier,
            self.new_violations,
            self.known_hits,
            wall,
            path
        );
        std::process::exit(if self.new_violations == 0 {
            EXIT_OK
        } else {
            EXIT_VIOLATION
        });
    }
}

/* ------------------------------------------------------------------------------------ */
/* History-replay BFS with deviation budget                                              */
/* ------------------------------------------------------------------------------------ */

/// Result of executing one history from scratch on the real code.
pub struct Outcome<Ev> {
    /// Canonical fingerprint of the state reached after the history.
    pub fp: u128,
    /// Events enabled in that state with their deviation cost (0 = default/free).
    pub enabled: Vec<(Ev, u32)>,
    /// Hash chain over the canonical observations of every replayed step (for divergence checks).
    pub obs_chain: Vec<u128>,
    /// First violation seen while replaying, or at the completed leaf.
    pub violation: Option<Violation>,
    /// Activation counters of this execution (summed by the explorer over *new* states).
    pub counters: BTreeMap<&'static str, u64>,
    /// Canonical terminal observation of the completed run (if the engine completes runs).
    pub terminal: Option<String>,
    /// Steps executed in total (history + completion).
    pub steps: u64,
}

pub struct Stats {
    pub states: u64,
    pub transitions: u64,
    pub executions: u64,
    pub steps: u64,
    pub max_depth: usize,
    pub distinct_terminals: usize,
    pub counters: BTreeMap<&'static str, u64>,
    pub exhaustive: bool,
    pub cap: Option<String>,
    pub per_budget: Vec<(u32, u64)>,
}

pub struct Limits {
    pub max_budget: u32,
    pub max_depth: usize,
    pub max_states: u64,
    pub wall_s: f64,
}

/// Level-synchronous BFS over event histories. Every history is executed from scratch by
/// `run` (the real code). Before an event is appended it was in `enabled` of the parent state,
/// and on replay the observation chain of the prefix must match the parent's — otherwise the
/// harness does not own all nondeterminism and nothing it says can be trusted (exit 2).
pub fn explore<Ev, F>(
    limits: &Limits,
    run: F,
    mut on_violation: impl FnMut(Violation, &[Ev]),
    mut on_sample: impl FnMut(&[Ev], &Outcome<Ev>),
) -> Stats
where
    Ev: Clone + Debug + Send + Sync,
    F: Fn(&[Ev]) -> Outcome<Ev> + Sync,
{
    struct Node<Ev> {
        hist: Vec<Ev>,
        spent: u32,
        parent_chain: Vec<u128>,
    }
    let start = crate::clock::wall();
    let mut seen: HashMap<u128, u32> = HashMap::new();
    let mut terminals: std::collections::HashSet<String> = Default::default();
    let mut stats = Stats {
        states: 0,
        transitions: 0,
        executions: 0,
        steps: 0,
        max_depth: 0,
        distinct_terminals: 0,
        counters: BTreeMap::new(),
        exhaustive: true,
        cap: None,
        per_budget: vec![],
    };
    let mut frontier = vec![Node {
        hist: vec![],
        spent: 0,
        parent_chain: vec![],
    }];
    let mut depth = 0usize;
    let mut sampled = 0usize;
    let mut violation_seen = false;
    while !frontier.is_empty() {
        if crate::clock::wall() - start > limits.wall_s {
            stats.exhaustive = false;
            stats.cap = Some(format!("wall {}s at depth {}", limits.wall_s, depth));
            break;
        }
        let outs = par_map(&frontier, |n| match catch_subject_panic(|| run(&n.hist)) {
            Ok(o) => o,
            Err((loc, msg)) => Outcome {
                fp: fp_str(&format!("panic {loc} {:?}", n.hist)),
                enabled: vec![],
                obs_chain: n.parent_chain.clone(),
                violation: Some(Violation {
                    clause: "the implementation never panics".into(),
                    key: format!("panic:{loc}"),
                    detail: format!("panic at {loc}: {msg} [history {:?}]", n.hist),
                    replay: json!({"history": format!("{:?}", n.hist)}),
                }),
                counters: BTreeMap::new(),
                terminal: None,
                steps: 0,
            },
        });
        let mut next = vec![];
        for (node, out) in frontier.into_iter().zip(outs.into_iter()) {
            stats.executions += 1;
            stats.steps += out.steps;
            // replay-divergence guard
            let k = node.parent_chain.len();
            if out.obs_chain.len() < k || out.obs_chain[..k] != node.parent_chain[..] {
                machinery(&format!(
                    "replay divergence at depth {} for history {:?}",
                    depth, node.hist
                ));
            }
            if let Some(v) = out.violation.clone() {
                on_violation(v, &node.hist);
                violation_seen = true;
            }
            if let Some(t) = &out.terminal {
                terminals.insert(t.clone());
            }
            // activation counters describe the last step of the execution, i.e. one explored
            // transition each (also when the target state was seen before)
            for (k, v) in &out.counters {
                *stats.counters.entry(k).or_insert(0) += v;
            }
            let new = match seen.get(&out.fp) {
                Some(&s) if s <= node.spent => false,
                _ => true,
            };
            if let Ok(t) = std::env::var("VERIF_TRACE") {
                let h = format!("{:?}", node.hist);
                if t.starts_with(h.trim_end_matches(']')) || h.starts_with(t.trim_end_matches(']')) {
                    eprintln!("TRACE {h} fp={:032x} spent={} new={new} enabled={:?} violation={:?}", out.fp, node.spent, out.enabled, out.violation.as_ref().map(|v| &v.key));
                }
            }
            if !new {
                continue;
            }
            let first_time = !seen.contains_key(&out.fp);
            seen.insert(out.fp, node.spent);
            if first_time {
                stats.states += 1;
                if sampled < 6 && (depth >= 2 || out.enabled.is_empty()) {
                    on_sample(&node.hist, &out);
                    sampled += 1;
                }
            }
            stats.max_depth = stats.max_depth.max(depth);
            if out.violation.is_some() {
                continue; // do not explore beyond a violating state
            }
            if depth >= limits.max_depth {
                if !out.enabled.is_empty() {
                    // bounded depth is a stated bound, not a cap hit
                }
                continue;
            }
            for (ev, cost) in &out.enabled {
                if node.spent + cost > limits.max_budget {
                    continue;
                }
                stats.transitions += 1;
                let mut h = node.hist.clone();
                h.push(ev.clone());
                next.push(Node {
                    hist: h,
                    spent: node.spent + cost,
                    parent_chain: out.obs_chain.clone(),
                });
            }
        }
        if violation_seen {
            // the shortest counterexamples are in hand; deeper levels add nothing to the verdict
            stats.exhaustive = false;
            stats.cap = Some(format!("stopped after the first violating level (depth {depth})"));
            break;
        }
        if stats.states > limits.max_states {
            stats.exhaustive = false;
            stats.cap = Some(format!("state cap {} at depth {}", limits.max_states, depth));
            break;
        }
        frontier = next;
        depth += 1;
    }
    stats.distinct_terminals = terminals.len();
    stats
}

pub fn chain(prev: Option<u128>, obs: &str) -> u128 {
    let mut h = Fp::default();
    h.write(&prev.unwrap_or(0).to_le_bytes());
    h.write(obs.as_bytes());
    h.value()
}

/* ------------------------------------------------------------------------------------ */
/* Process sharding (for engines whose subject reads process-global state)               */
/* ------------------------------------------------------------------------------------ */

/// `Some((i, n))` when this process is shard i of n.
pub fn shard() -> Option<(usize, usize)> {
    let s = std::env::var("VERIF_SHARD").ok()?;
    let mut it = s.split('/');
    Some((it.next()?.parse().ok()?, it.next()?.parse().ok()?))
}

/// Child side: hand the shard's result to the parent and exit.
pub fn shard_finish(v: Value) -> ! {
    println!("SHARD-RESULT {}", serde_json::to_string(&v).unwrap());
    std::process::exit(0);
}

/// Parent side: re-executes this binary `n` times with VERIF_SHARD=i/n and collects the results.
pub fn run_shards(args: &[String], n: usize) -> Vec<Value> {
    let exe = std::env::current_exe().expect("current exe");
    let children: Vec<_> = (0..n)
        .map(|i| {
            std::process::Command::new(&exe)
                .args(args)
                .env("VERIF_SHARD", format!("{i}/{n}"))
                .env("VERIF_THREADS", "1")
                .stdout(std::process::Stdio::piped())
                .stderr(std::process::Stdio::inherit())
                .spawn()
                .expect("spawn shard")
        })
        .collect();
    let mut out = vec![];
    for (i, c) in children.into_iter().enumerate() {
        let o = c.wait_with_output().expect("shard output");
        let text = String::from_utf8_lossy(&o.stdout);
        let line = text.lines().rev().find(|l| l.starts_with("SHARD-RESULT "));
        match (o.status.code(), line) {
            (Some(0), Some(l)) => out.push(serde_json::from_str(&l["SHARD-RESULT ".len()..]).expect("shard json")),
            (code, _) => machinery(&format!("shard {i}/{n} failed (exit {:?}): {}", code, text.lines().last().unwrap_or(""))),
        }
    }
    out
}

pub fn violation_to_json(v: &Violation) -> Value {
    json!({"clause": v.clause, "key": v.key, "detail": v.detail, "replay": v.replay})
}

pub fn violation_from_json(v: &Value) -> Violation {
    Violation {
        clause: v["clause"].as_str().unwrap_or("").into(),
        key: v["key"].as_str().unwrap_or("").into(),
        detail: v["detail"].as_str().unwrap_or("").into(),
        replay: v["replay"].clone(),
    }
}
