mod clock;
mod mc;
mod rt;
mod util;
mod smoke;
mod codec;
mod table;
mod query;
mod filter;
mod lru;
mod snode;
mod ssim;
mod nodes;
mod admission;
mod hsim;
mod hdrive;
mod attack;
mod expiry;
mod tamper;
mod lookup;

fn main() {
    clock::self_test();
    mc::install_panic_hook();
    let args: Vec<String> = std::env::args().skip(1).collect();
    let cmd = args.first().map(|s| s.as_str()).unwrap_or("");
    let tier = args.get(1).map(|s| s.as_str()).unwrap_or("quick");
    let tier = std::env::var("VERIF_TIER").unwrap_or_else(|_| tier.to_string());
    std::env::set_var("VERIF_TIER_ARG", &tier);
    match cmd {
        "smoke" => smoke::run(),
        "C05" => codec::run_c05(),
        "C06" => codec::run_c06(),
        "C07" => table::run_c07_c08("C07"),
        "C08" => table::run_c07_c08("C08"),
        "C16" => table::run_c16(),
        "qdebug" => query::debug_one(),
        "ldebug" => lookup::debug(),
        "C18" => filter::run(),
        "C20" => ssim::run_c20(),
        "C14" => ssim::run_c14(),
        "C17" => ssim::run_c17(),
        "C11" => nodes::run(&args),
        "C12" => admission::run(),
        "C01" => attack::run_c01(),
        "C15" => expiry::run(),
        "C02" => tamper::run(),
        "C04" => hdrive::run("C04"),
        "C13" => hdrive::run("C13"),
        "C03" => hdrive::run("C03"),
        "C19" => hdrive::run("C19"),
        "c17debug" => ssim::debug_c17(),
        "C09" => query::run("C09"),
        "C10" => query::run("C10"),
        "replay" => replay(&args),
        _ => {
            eprintln!("unknown command {cmd}");
            std::process::exit(2);
        }
    }
}

fn replay(args: &[String]) {
    let path = args.get(1).expect("replay <path>");
    let v: serde_json::Value = serde_json::from_str(&std::fs::read_to_string(path).expect("readable")).expect("json");
    let prop = v["property"].as_str().unwrap_or("");
    println!("replaying {} clause={} key={}", prop, v["clause"], v["key"]);
    println!("recorded detail: {}", v["detail"]);
    match v["replay"]["engine"].as_str().unwrap_or("") {
        "codec" => codec::replay(v["replay"]["check"].as_str().unwrap_or(""), &v["replay"]),
        "hsim" => match v["replay"]["driver"].as_str().unwrap_or("") {
            "hdrive" => hdrive::replay(&v["replay"], prop),
            "attack" => attack::replay(&v["replay"], prop),
            "expiry" => expiry::replay(&v["replay"]),
            "tamper" => tamper::replay(&v["replay"]),
            d => { eprintln!("no replayer for hsim driver {d}"); std::process::exit(2); }
        },
        e => { eprintln!("no replayer for engine {e}"); std::process::exit(2); }
    }
}
