#!/usr/bin/env python3
"""tools/seed_store.py <seed-id> <property> <caught-by(comma)> <missed-first(yes/no)> <note>"""
import json,sys,shutil,os
sid,prop,caught,missed,note=sys.argv[1:6]
import glob
import re as _re
m=_re.match(r'(C\d\d)([cdefgh])([ab])$',sid)
src=(f'/tmp/seed{dict(c=3,d=4,e=5,f=6,g=7,h=8)[m.group(2)]}-{m.group(1)}/{m.group(3)}' if m else f'/tmp/seed2-{sid[:-1]}' if sid.endswith('b') else f'/tmp/seed-{sid}'); dst=f'/verif/seeded/{sid}'
os.makedirs(dst,exist_ok=True)
for f in ['patch.diff','demo.diff','demo_cmd.txt']:
    shutil.copy(f'{src}/{f}',f'{dst}/{f}')
n=json.load(open(f'{src}/notes.json'))
meta={"id":sid,"property":prop,"summary":n.get("summary"),"needs_to_manifest":n.get("needs_to_manifest"),"files":n.get("files"),
 "author":"fresh sub-agent given only the property text and a scratch worktree of /repo",
 "confirmed":{"how":"tools/seed_eval.sh: patch applied in a scratch worktree; `cargo test --offline --lib` inside a private network namespace; demonstration with and without the patch",
   "existing_suite_with_change":"121 passed, 0 failed","demo_with_change":"fails","demo_without_change":"passes"},
 "our_checks":{"caught_by":[c for c in caught.split(',') if c],"missed_at_first":missed=="yes","note":note,
   "how":"git -C /repo apply patch.diff; ./check <ID> quick; git -C /repo checkout -- ."}}
json.dump(meta,open(f'{dst}/meta.json','w'),indent=1)
print("stored",dst)
