//! Engine `query`: C09 / C10 on the real `FindNodeQuery`, `PredicateQuery` and `QueryPool`,
//! driven directly with explicit time.
use crate::clock;
use crate::mc::{self, Limits, Outcome, Report, Violation};
use crate::util;
use discv5::enr::NodeId;
use discv5::kbucket::{Key, PredicateKey};
use discv5::verif::{self as v, FindNodeQuery, FindNodeQueryConfig, QuerySnap, QueryState};
use discv5::Enr;
use serde_json::json;
use std::collections::{BTreeMap, BTreeSet};
use std::time::{Duration, Instant};

const PEER_TIMEOUT: Duration = Duration::from_secs(2);
// Deliberately not a multiple of the peer timeout: the query timeout can elapse while a request
// issued after a peer timeout is still in flight.
const QUERY_TIMEOUT: Duration = Duration::from_secs(3);

/// Universe index: 0..n-1 are peers, n is the target id itself.
type P = u8;

#[derive(Clone, Debug, PartialEq, Eq, Hash)]
pub enum QEv {
    Poll,
    Succ(P, Vec<P>),
    Fail(P),
    IdlePeer,
    IdleQuery,
    /// half a peer timeout passes (requests issued at different instants then time out one by one)
    HalfPeer,
}

#[derive(Clone, Debug)]
pub struct QCfg {
    pub predicate: bool,
    pub pool: bool,
    pub n_peers: usize,
    pub initial: Vec<P>,
    pub parallelism: usize,
    pub num_results: usize,
    pub max_report: usize,
    /// time also advances in halves of the peer timeout
    pub half_steps: bool,
    /// narrow alphabet (answers report nothing, no initial peer satisfies the predicate, so the
    /// lookup only ends by exhaustion), explored deeper
    pub deep: bool,
    /// pool worlds: a second lookup (two own peers, parallelism 1, answered at once with nothing)
    /// shares the pool
    pub companion: bool,
}

struct Universe {
    target: NodeId,
    ids: Vec<NodeId>,   // peers sorted by distance to target, then the target itself
    enrs: Vec<Enr>,     // same order (only for predicate / pool worlds)
    /// predicate: record index is even
    pred: Vec<bool>,
}

fn universe(n: usize, real: bool) -> Universe {
    if !real {
        let t = [0x33u8; 32];
        let mut ids = vec![];
        for i in 1..=n {
            let mut r = t;
            r[31] ^= i as u8;
            ids.push(NodeId::new(&r));
        }
        ids.push(NodeId::new(&t));
        return Universe { target: NodeId::new(&t), ids, enrs: vec![], pred: vec![] };
    }
    thread_local! {
        static U: std::cell::RefCell<Option<(NodeId, Vec<(NodeId, Enr, bool)>)>> = const { std::cell::RefCell::new(None) };
    }
    let (target, all) = U.with(|u| {
        let mut u = u.borrow_mut();
        if u.is_none() {
            let tk = util::key(500);
            let target = util::node_id(&tk);
            let tenr = util::enr4(&tk, 1, util::v4(10, 9, 0, 99, 9000));
            let mut v: Vec<(NodeId, Enr, bool)> = (0..8u16)
                .map(|i| {
                    let k = util::key(501 + i);
                    // the predicate looks at the record: port even
                    let e = util::enr4(&k, 1, util::v4(10, 9, 0, i as u8 + 1, 9000 + i));
                    (util::node_id(&k), e, i % 2 == 0)
                })
                .collect();
            v.sort_by_key(|x| xor_ids(&target, &x.0));
            v.push((target, tenr, true));
            *u = Some((target, v));
        }
        u.clone().unwrap()
    });
    let mut sel: Vec<(NodeId, Enr, bool)> = all[..n].to_vec();
    sel.push(all.last().unwrap().clone());
    Universe { target, ids: sel.iter().map(|x| x.0).collect(), enrs: sel.iter().map(|x| x.1.clone()).collect(), pred: sel.iter().map(|x| x.2).collect() }
}

fn xor_ids(a: &NodeId, b: &NodeId) -> [u8; 32] {
    let (a, b) = (a.raw(), b.raw());
    let mut o = [0u8; 32];
    for i in 0..32 {
        o[i] = a[i] ^ b[i];
    }
    o
}

fn companion_peers() -> Vec<NodeId> {
    vec![NodeId::new(&[0xC1; 32]), NodeId::new(&[0xC2; 32])]
}

fn never_matches(_e: &Enr) -> bool {
    false
}

fn record_predicate(e: &Enr) -> bool {
    e.udp4().map(|p| p % 2 == 0).unwrap_or(false)
}

enum Subject {
    Find(FindNodeQuery<NodeId>),
    Pred(v::VPredicateQuery),
    Pool(v::QueryPool<Tgt, NodeId, Enr>, v::QueryId),
}

pub struct Tgt(NodeId);
impl v::TargetKey<NodeId> for Tgt {
    fn key(&self) -> Key<NodeId> {
        Key::from(self.0)
    }
}

struct QWorld {
    cfg: QCfg,
    u: Universe,
    subj: Option<Subject>,
    t0: Instant,
    // ledger
    issued: BTreeMap<P, Instant>,
    answered: BTreeSet<P>,          // success or failure delivered after issuance
    succeeded: BTreeSet<P>,         // effective successes
    effective_successes: usize,
    known: BTreeSet<P>,             // initial (after constructor truncation) + reported in first answers
    known_upper: BTreeSet<P>,       // ... + reported in any answer after issuance
    finished: Option<Vec<P>>,       // result once finished / timed out
    timed_out: bool,
    started: Option<Instant>,
    counters: BTreeMap<&'static str, u64>,
    /// the lookup reported its stalled mode before the poll being executed
    stalled_before_poll: bool,
    /// the companion lookup: its id, the peers the pool reported for it, whether it was handed back
    comp: Option<(v::QueryId, BTreeSet<[u8; 32]>, bool)>,
}

impl QWorld {
    fn new(cfg: &QCfg) -> Self {
        let real = cfg.predicate || cfg.pool;
        let u = universe(cfg.n_peers, real);
        let tkey = Key::from(u.target);
        let mut comp = None;
        let subj = if cfg.pool {
            let mut pool = v::QueryPool::new(QUERY_TIMEOUT);
            let id = if cfg.predicate {
                let peers: Vec<PredicateKey<NodeId>> = cfg.initial.iter().map(|p| PredicateKey { key: Key::from(u.ids[*p as usize]), predicate_match: u.pred[*p as usize] }).collect();
                v::pool_add_predicate_query(&mut pool, cfg.parallelism, cfg.num_results, PEER_TIMEOUT, Tgt(u.target), peers, record_predicate)
            } else {
                let c = FindNodeQueryConfig { parallelism: cfg.parallelism, num_results: cfg.num_results, peer_timeout: PEER_TIMEOUT };
                pool.add_findnode_query(c, Tgt(u.target), cfg.initial.iter().map(|p| Key::from(u.ids[*p as usize])))
            };
            if cfg.companion {
                let c = FindNodeQueryConfig { parallelism: 1, num_results: 16, peer_timeout: PEER_TIMEOUT };
                let cid = pool.add_findnode_query(c, Tgt(NodeId::new(&[0xC0; 32])), companion_peers().into_iter().map(Key::from));
                comp = Some((cid, BTreeSet::new(), false));
            }
            Subject::Pool(pool, id)
        } else if cfg.predicate {
            let peers: Vec<PredicateKey<NodeId>> = cfg.initial.iter().map(|p| PredicateKey { key: Key::from(u.ids[*p as usize]), predicate_match: u.pred[*p as usize] && !cfg.deep }).collect();
            Subject::Pred(v::VPredicateQuery::with_config(cfg.parallelism, cfg.num_results, PEER_TIMEOUT, tkey, peers, if cfg.deep { never_matches } else { record_predicate }))
        } else {
            let c = FindNodeQueryConfig { parallelism: cfg.parallelism, num_results: cfg.num_results, peer_timeout: PEER_TIMEOUT };
            Subject::Find(FindNodeQuery::with_config(c, tkey, cfg.initial.iter().map(|p| Key::from(u.ids[*p as usize]))))
        };
        // constructor keeps the first `num_results` of the given candidates
        let known: BTreeSet<P> = cfg.initial.iter().take(cfg.num_results).copied().collect();
        let known_upper = known.clone();
        QWorld { cfg: cfg.clone(), u, subj: Some(subj), t0: Instant::now(), issued: BTreeMap::new(), answered: BTreeSet::new(), succeeded: BTreeSet::new(), effective_successes: 0, known, known_upper, finished: None, timed_out: false, started: None, counters: BTreeMap::new(), stalled_before_poll: false, comp }
    }

    fn idx(&self, id: &NodeId) -> P {
        self.u.ids.iter().position(|x| x == id).expect("id of the universe") as P
    }

    fn in_flight(&self, now: Instant) -> Vec<P> {
        self.issued.iter().filter(|(p, t)| !self.answered.contains(p) && now < **t + PEER_TIMEOUT).map(|(p, _)| *p).collect()
    }

    fn enabled(&self) -> Vec<(QEv, u32)> {
        if self.finished.is_some() {
            return vec![];
        }
        let now = Instant::now();
        let mut ev = vec![(QEv::Poll, 0)];
        let n = self.cfg.n_peers;
        // reported sets: every subset of the universe (peers and the target id) of size ≤ max_report
        let all: Vec<P> = (0..=n as P).collect();
        let mut sets: Vec<Vec<P>> = vec![vec![]];
        if self.cfg.max_report >= 1 {
            for a in &all {
                sets.push(vec![*a]);
            }
        }
        if self.cfg.max_report >= 2 {
            for (i, a) in all.iter().enumerate() {
                for b in &all[i + 1..] {
                    sets.push(vec![*a, *b]);
                    if *a == 0 {
                        // order of the reported peers matters to the progress rule: one reversed pair
                        sets.push(vec![*b, *a]);
                    }
                }
            }
        }
        if self.cfg.max_report >= 2 || self.cfg.deep {
            // overshooting answers: more peers than any configured result count, nearest-first and
            // farthest-first (a multi-packet NODES answer is handed to the lookup as one list)
            let peers: Vec<P> = (0..n as P).collect();
            sets.push(peers.clone());
            sets.push(peers.into_iter().rev().collect());
        }
        for p in 0..n as P {
            for s in &sets {
                ev.push((QEv::Succ(p, s.clone()), 0));
            }
            ev.push((QEv::Fail(p), 0));
        }
        if !self.in_flight(now).is_empty() {
            ev.push((QEv::IdlePeer, 0));
            if self.cfg.half_steps {
                ev.push((QEv::HalfPeer, 0));
            }
        }
        if self.cfg.pool && self.started.is_some() {
            ev.push((QEv::IdleQuery, 0));
        }
        ev
    }

    fn violation(&self, clause: &str, key: &str, detail: String) -> Violation {
        Violation { clause: clause.into(), key: key.into(), detail, replay: json!(null) }
    }

    fn finish(&mut self, result: Vec<NodeId>, timed_out: bool) -> Result<(), Violation> {
        let res: Vec<P> = result.iter().map(|id| self.idx(id)).collect();
        *self.counters.entry(if timed_out { "timed_out" } else { "finished" }).or_insert(0) += 1;
        // C10 clauses
        if res.len() > self.cfg.num_results {
            return Err(self.violation("a result contains at most k nodes", "c10:result>k", format!("{:?}", res)));
        }
        let set: BTreeSet<P> = res.iter().copied().collect();
        if set.len() != res.len() {
            return Err(self.violation("result nodes are distinct", "c10:result-duplicate", format!("{:?}", res)));
        }
        for w in res.windows(2) {
            if xor_ids(&self.u.target, &self.u.ids[w[0] as usize]) >= xor_ids(&self.u.target, &self.u.ids[w[1] as usize]) {
                return Err(self.violation("result is in increasing XOR distance", "c10:result-order", format!("{:?}", res)));
            }
        }
        for p in &res {
            if !self.succeeded.contains(p) {
                return Err(self.violation("every returned node answered the lookup's request", "c10:result-unanswered", format!("peer {p} returned; issued={:?} succeeded={:?}", self.issued.keys().collect::<Vec<_>>(), self.succeeded)));
            }
            if self.cfg.predicate && (!self.u.pred[*p as usize] || self.cfg.deep) {
                return Err(self.violation("a predicate lookup returns only nodes reported with a record satisfying the predicate", "c10:result-predicate", format!("peer {p}")));
            }
        }
        if res.len() < self.cfg.num_results && !timed_out {
            *self.counters.entry("short_results").or_insert(0) += 1;
            for k in &self.known {
                if !self.issued.contains_key(k) {
                    return Err(self.violation("if fewer than k nodes are returned every learned candidate was contacted", "c10:incomplete", format!("candidate {k} never contacted; result {:?}", res)));
                }
            }
        }
        self.finished = Some(res);
        self.timed_out = timed_out;
        Ok(())
    }

    fn on_issue(&mut self, id: NodeId, now: Instant) -> Result<(), Violation> {
        let p = self.idx(&id);
        let before = self.in_flight(now).len();
        *self.counters.entry("issuances").or_insert(0) += 1;
        if self.issued.contains_key(&p) {
            return Err(self.violation("a lookup never sends its request to the same peer twice", "issued-twice", format!("peer {p}")));
        }
        if !self.known_upper.contains(&p) {
            return Err(self.violation("harness", "issued-unknown", format!("peer {p}")));
        }
        let stalled_possible = self.effective_successes >= self.cfg.parallelism;
        // once the lookup itself is in its stalled mode (its own report before this poll) the bound
        // is the number of results wanted — the stricter one when that is below the parallelism
        if self.stalled_before_poll && before >= self.cfg.num_results && before < self.cfg.parallelism {
            return Err(self.violation("never more requests in flight than the parallelism (or, once stalled, than the number of results)", "parallelism-stalled", format!("stalled lookup issues to {p} with {before} in flight, k {}, parallelism {}", self.cfg.num_results, self.cfg.parallelism)));
        }
        if before >= self.cfg.parallelism {
            if !(stalled_possible && before < self.cfg.num_results) {
                return Err(self.violation("never more requests in flight than the parallelism (or, once stalled, than the number of results)", "parallelism", format!("issuing to {p} with {before} in flight, parallelism {}, k {}, successes so far {}", self.cfg.parallelism, self.cfg.num_results, self.effective_successes)));
            }
            *self.counters.entry("issuances_above_parallelism").or_insert(0) += 1;
        }
        self.issued.insert(p, now);
        Ok(())
    }

    fn step(&mut self, ev: &QEv) -> Result<String, Violation> {
        let now = Instant::now();
        let obs;
        match ev {
            QEv::Poll => {
                self.stalled_before_poll = self.snap().map(|s| s.progress == 254).unwrap_or(false);
                let subj = self.subj.take().unwrap();
                let (subj, r) = match subj {
                    Subject::Find(mut q) => {
                        let s = q.next(now);
                        let r = match &s {
                            QueryState::Finished => Some(q.clone().into_result()),
                            _ => None,
                        };
                        (Some(Subject::Find(q)), (s, r, false))
                    }
                    Subject::Pred(mut q) => {
                        let s = q.next(now);
                        if s == QueryState::Finished {
                            let r = q.into_result();
                            (None, (s, Some(r), false))
                        } else {
                            (Some(Subject::Pred(q)), (s, None, false))
                        }
                    }
                    Subject::Pool(mut pool, id) => {
                        self.started = self.started.or(Some(now));
                        let comp_id = self.comp.as_ref().map(|c| c.0);
                        // events of the companion lookup are served on the spot (its peers answer at once
                        // with nothing); the poll that matters is the first that concerns the main lookup
                        let mut comp_violation: Option<String> = None;
                        let mut guard = 0;
                        let (s, r, to, gone) = loop {
                            guard += 1;
                            if guard > 16 {
                                break (QueryState::Waiting(None), None, false, false);
                            }
                            match pool.poll() {
                                v::QueryPoolState::Waiting(Some((q, peer))) if Some(q.id()) == comp_id => {
                                    if let Some(c) = self.comp.as_mut() {
                                        c.1.insert(peer.raw());
                                    }
                                    q.on_success(&peer, &[]);
                                    *self.counters.entry("companion_requests").or_insert(0) += 1;
                                }
                                v::QueryPoolState::Finished(q) | v::QueryPoolState::Timeout(q) if Some(q.id()) == comp_id => {
                                    if let Some(c) = self.comp.as_mut() {
                                        c.2 = true;
                                        for p in companion_peers() {
                                            if !c.1.contains(&p.raw()) {
                                                comp_violation = Some(format!("the companion lookup ended without its candidate {} ever being handed out by the pool", util::short(&p)));
                                            }
                                        }
                                    }
                                }
                                v::QueryPoolState::Idle => break (QueryState::Finished, None, false, true),
                                v::QueryPoolState::Waiting(None) => break (QueryState::Waiting(None), None, false, false),
                                v::QueryPoolState::Waiting(Some((q, peer))) => {
                                    if q.id() != id {
                                        return Err(self.violation("harness", "pool-id", "unexpected query id".into()));
                                    }
                                    break (QueryState::Waiting(Some(peer)), None, false, false);
                                }
                                v::QueryPoolState::Finished(q) => break (QueryState::Finished, Some(q.into_result().closest_peers.collect::<Vec<_>>()), false, false),
                                v::QueryPoolState::Timeout(q) => break (QueryState::Finished, Some(q.into_result().closest_peers.collect::<Vec<_>>()), true, false),
                            }
                        };
                        if let Some(d) = comp_violation {
                            return Err(self.violation("if fewer than k nodes are returned every learned candidate was contacted", "c10:incomplete", d));
                        }
                        if gone {
                            return Err(self.violation("a lookup hands its result to the caller exactly once", "pool-lost", "pool is idle but the query was never returned".into()));
                        }
                        if r.is_some() {
                            // a companion still in the pool is driven to its end (a candidate the pool never
                            // handed out goes unresponsive after the peer timeout)
                            let mut guard = 0;
                            while self.comp.as_ref().map(|c| !c.2).unwrap_or(false) {
                                guard += 1;
                                if guard > 12 {
                                    return Err(self.violation("every lookup terminates", "c09:companion-no-termination", "the companion lookup did not end".into()));
                                }
                                match pool.poll() {
                                    v::QueryPoolState::Waiting(Some((q, peer))) => {
                                        if let Some(c) = self.comp.as_mut() {
                                            c.1.insert(peer.raw());
                                        }
                                        q.on_success(&peer, &[]);
                                    }
                                    v::QueryPoolState::Finished(_) | v::QueryPoolState::Timeout(_) => {
                                        let c = self.comp.as_mut().unwrap();
                                        c.2 = true;
                                        for p in companion_peers() {
                                            if !c.1.contains(&p.raw()) {
                                                return Err(self.violation("if fewer than k nodes are returned every learned candidate was contacted", "c10:incomplete", format!("the companion lookup ended without its candidate {} ever being handed out by the pool", util::short(&p))));
                                            }
                                        }
                                    }
                                    v::QueryPoolState::Idle => {
                                        return Err(self.violation("a lookup hands its result to the caller exactly once", "pool-lost", "pool is idle but the companion lookup was never returned".into()));
                                    }
                                    v::QueryPoolState::Waiting(None) => clock::advance(PEER_TIMEOUT),
                                }
                            }
                            // exactly once: it must be gone from the pool now
                            if pool.get_mut(id).is_some() || pool.iter().count() != 0 {
                                return Err(self.violation("a lookup hands its result to the caller exactly once", "pool-kept", "finished query still in the pool".into()));
                            }
                            if !matches!(pool.poll(), v::QueryPoolState::Idle) {
                                return Err(self.violation("a lookup hands its result to the caller exactly once", "pool-again", "pool not idle after returning its only query".into()));
                            }
                        }
                        (Some(Subject::Pool(pool, id)), (s, r, to))
                    }
                };
                self.subj = subj;
                let (state, result, timed_out) = r;
                match &state {
                    QueryState::Waiting(Some(id)) => {
                        self.on_issue(*id, now)?;
                        obs = format!("issue {}", self.idx(id));
                    }
                    QueryState::Waiting(None) | QueryState::WaitingAtCapacity => {
                        obs = if state == QueryState::WaitingAtCapacity { "capacity".into() } else { "wait".into() };
                        if self.cfg.pool && self.started.map_or(false, |s| now >= s + QUERY_TIMEOUT) {
                            return Err(self.violation(
                                "every lookup terminates (finishes or is cut off by the query timeout)",
                                "c09:not-cut-off-in-time",
                                format!("the pool keeps a waiting lookup {:?} after it was first polled (query timeout {:?})", now.saturating_duration_since(self.started.unwrap()), QUERY_TIMEOUT),
                            ));
                        }
                    }
                    QueryState::Finished => {
                        let r = result.expect("result of a finished query");
                        self.finish(r, timed_out)?;
                        obs = format!("finished {:?}", self.finished);
                    }
                }
            }
            QEv::Succ(p, s) => {
                let id = self.u.ids[*p as usize];
                // `effective`: first answer of an issued peer — the query must take it into account.
                // Weaker notions (any answer after issuance, even after a failure report) only widen
                // what the oracle tolerates: `succeeded`, `known_upper`, `effective_successes`.
                let effective = self.issued.contains_key(p) && !self.answered.contains(p);
                if self.issued.contains_key(p) {
                    self.succeeded.insert(*p);
                    self.effective_successes += 1;
                    for r in s {
                        self.known_upper.insert(*r);
                    }
                }
                if effective {
                    self.answered.insert(*p);
                    for r in s {
                        self.known.insert(*r);
                    }
                    *self.counters.entry("effective_successes").or_insert(0) += 1;
                } else if self.issued.contains_key(p) {
                    *self.counters.entry("late_or_duplicate_answers").or_insert(0) += 1;
                }
                match self.subj.as_mut().unwrap() {
                    Subject::Find(q) => q.on_success(&id, s.iter().map(|r| self.u.ids[*r as usize]).collect()),
                    Subject::Pred(q) => q.on_success(&id, &s.iter().map(|r| self.u.enrs[*r as usize].clone()).collect::<Vec<_>>()),
                    Subject::Pool(pool, qid) => {
                        let recs: Vec<Enr> = s.iter().map(|r| self.u.enrs[*r as usize].clone()).collect();
                        if let Some(q) = pool.get_mut(*qid) {
                            q.on_success(&id, &recs)
                        }
                    }
                }
                obs = format!("succ {effective}");
            }
            QEv::Fail(p) => {
                let id = self.u.ids[*p as usize];
                if self.issued.contains_key(p) && !self.answered.contains(p) {
                    self.answered.insert(*p);
                }
                match self.subj.as_mut().unwrap() {
                    Subject::Find(q) => q.on_failure(&id),
                    Subject::Pred(q) => q.on_failure(&id),
                    Subject::Pool(pool, qid) => {
                        if let Some(q) = pool.get_mut(*qid) {
                            q.on_failure(&id)
                        }
                    }
                }
                obs = "fail".into();
            }
            QEv::IdlePeer => {
                clock::advance(PEER_TIMEOUT);
                obs = "idle".into();
            }
            QEv::HalfPeer => {
                clock::advance(PEER_TIMEOUT / 2);
                obs = "half".into();
            }
            QEv::IdleQuery => {
                // to the earliest instant at which the pool owes the cut-off, or a full period later
                let now = Instant::now();
                match self.started {
                    Some(s) if now < s + QUERY_TIMEOUT => clock::advance(s + QUERY_TIMEOUT - now),
                    _ => clock::advance(QUERY_TIMEOUT),
                }
                obs = "idle-query".into();
            }
        }
        Ok(obs)
    }

    fn snap(&self) -> Option<QuerySnap> {
        let now = Instant::now();
        match self.subj.as_ref()? {
            Subject::Find(q) => Some(q.verif_state(now)),
            Subject::Pred(q) => Some(q.verif_state(now)),
            Subject::Pool(..) => None,
        }
    }

    fn fingerprint(&self) -> u128 {
        let now = Instant::now();
        let inflight: Vec<(P, u32)> = self.in_flight(now).into_iter().map(|p| (p, (now.saturating_duration_since(self.issued[&p]).as_millis() / (PEER_TIMEOUT.as_millis() / 2)) as u32)).collect();
        let elapsed_query = self.started.map(|s| now.saturating_duration_since(s) >= QUERY_TIMEOUT);
        mc::fp_of(&(
            self.snap(),
            self.issued.keys().collect::<Vec<_>>(),
            &self.answered,
            &self.succeeded,
            self.effective_successes.min(self.cfg.parallelism),
            &self.known,
            &self.known_upper,
            &self.finished,
            inflight,
            elapsed_query,
            self.timed_out,
        ))
    }

    /// Default continuation: poll while something is issued, else let the peers time out.
    fn complete(&mut self) -> Result<u64, Violation> {
        let mut steps = 0;
        let bound = 6 * (self.cfg.n_peers as u64 + 3);
        let mut idle_polls = 0;
        let mut cut = false;
        while self.finished.is_none() {
            steps += 1;
            if steps > bound {
                return Err(self.violation("every lookup terminates", "no-termination", format!("not finished after {bound} default steps")));
            }
            let before = self.issued.len();
            let o = self.step(&QEv::Poll)?;
            if std::env::var("VERIF_DEBUG").is_ok() {
                eprintln!("complete: poll -> {o}; issued={:?} answered={:?} inflight={:?} snap={:?}", self.issued.keys().collect::<Vec<_>>(), self.answered, self.in_flight(Instant::now()), self.snap());
            }
            if self.finished.is_some() {
                break;
            }
            if self.issued.len() == before {
                // nothing new was issued: the only thing that can happen without peers is time
                if self.in_flight(Instant::now()).is_empty() {
                    // a poll that notices an elapsed peer timeout may report "at capacity" once
                    // (capacity is computed before the scan); the next poll must make progress
                    idle_polls += 1;
                    if idle_polls > 1 {
                        // The query makes no progress on its own (e.g. at capacity because of a
                        // timed-out farther peer it never re-visits). The property allows this as
                        // long as the query timeout of the pool cuts it off.
                        if !self.cfg.pool {
                            *self.counters.entry("stalls_needing_query_timeout").or_insert(0) += 1;
                            return Ok(steps);
                        }
                        if cut {
                            return Err(self.violation("every lookup terminates (finishes or is cut off by the query timeout)", "not-cut-off", format!("poll says '{o}' after the query timeout elapsed")));
                        }
                        cut = true;
                        self.step(&QEv::IdleQuery)?;
                    }
                    continue;
                }
                self.step(&QEv::IdlePeer)?;
            }
            idle_polls = 0;
        }
        Ok(steps)
    }
}

fn run_query(cfg: &QCfg, hist: &[QEv]) -> Outcome<QEv> {
    let mut w = QWorld::new(cfg);
    let mut chain = vec![];
    let mut prev = None;
    let mut violation = None;
    let mut steps = 0u64;
    for (i, ev) in hist.iter().enumerate() {
        steps += 1;
        if i + 1 == hist.len() {
            w.counters.clear();
        }
        match w.step(ev) {
            Ok(o) => {
                let c = mc::chain(prev, &o);
                chain.push(c);
                prev = Some(c);
            }
            Err(v) => {
                violation = Some(v);
                break;
            }
        }
    }
    let fp = w.fingerprint();
    let enabled = if violation.is_none() { w.enabled() } else { vec![] };
    let mut counters = std::mem::take(&mut w.counters);
    let mut terminal = None;
    if violation.is_none() {
        // every explored state is run on to completion (termination + result clauses)
        match w.complete() {
            Ok(s) => {
                steps += s;
                terminal = Some(format!("{:?}/{}", w.finished, w.timed_out));
            }
            Err(v) => violation = Some(v),
        }
        // completion counters are not activation counters of this state
        let _ = &mut counters;
    }
    if let Some(v) = violation.as_mut() {
        v.replay = json!({"engine":"query","cfg":format!("{:?}",cfg),"history":format!("{:?}",hist)});
    }
    let _ = w.t0;
    Outcome { fp, enabled, obs_chain: chain, violation, counters, terminal, steps }
}

pub fn debug_one() {
    let cfg = QCfg { predicate: true, pool: false, n_peers: 7, initial: vec![6], parallelism: 3, num_results: 1, max_report: 0, half_steps: true, deep: true, companion: false };
    let h = vec![QEv::Poll, QEv::Succ(6, vec![6, 5, 4, 3, 2, 1, 0]), QEv::Poll, QEv::Poll, QEv::Poll, QEv::Succ(0, vec![]), QEv::HalfPeer, QEv::Poll, QEv::Succ(1, vec![]), QEv::HalfPeer, QEv::Poll, QEv::Succ(2, vec![]), QEv::HalfPeer, QEv::Poll, QEv::Poll];
    let mut w = QWorld::new(&cfg);
    for e in &h {
        let o = w.step(e);
        eprintln!("{:?} -> {:?} snap {:?}", e, o.map_err(|v| (v.key, v.detail)), w.snap());
        if w.finished.is_some() {
            break;
        }
    }
}

pub fn run(prop: &str) {
    let mut rep = Report::new(prop, "model_checking");
    let thorough = rep.thorough();
    let n_peers = if thorough { 5 } else { 4 };
    let max_report = if thorough { 2 } else { 2 };
    let initials: Vec<Vec<P>> = if thorough {
        vec![vec![0], vec![4], vec![0, 1], vec![3, 4], vec![0, 4], vec![4, 0], vec![0, 1, 2], vec![2, 3, 4], vec![0, 1, 2, 3]]
    } else {
        vec![vec![0], vec![3], vec![0, 1], vec![3, 0], vec![1, 2, 3], vec![0, 1, 2, 3]]
    };
    let pks: Vec<(usize, usize)> = if thorough { vec![(1, 1), (1, 2), (2, 1), (2, 2), (2, 3), (3, 3), (3, 2), (1, 3), (3, 16)] } else { vec![(1, 1), (1, 2), (2, 1), (2, 2), (2, 3), (3, 2)] };
    let mut cfgs = vec![];
    for init in &initials {
        for (par, k) in &pks {
            for (predicate, pool) in [(false, false), (true, false), (false, true), (true, true)] {
                if (predicate || pool) && !thorough && (init.len() == 3 || *par == 3) {
                    continue;
                }
                cfgs.push(QCfg { predicate, pool, n_peers, initial: init.clone(), parallelism: *par, num_results: *k, max_report: if predicate || pool { max_report.min(if thorough { 2 } else { 1 }) } else { max_report }, half_steps: thorough, deep: false, companion: false });
                // pool worlds once more with a second lookup sharing the pool
                if pool && init.len() <= 2 && *par <= 2 && *k <= 2 {
                    let mut c = cfgs.last().unwrap().clone();
                    c.companion = true;
                    cfgs.push(c);
                }
            }
        }
    }
    // deep and narrow: all candidates known from the start, answers report nothing new, time moves
    // in halves of the peer timeout (staggered deadlines), parallelism above the result count
    for (predicate, par, k) in [(true, 3usize, 1usize), (false, 3, 1)] {
        // (the constructor keeps only the k closest initial peers: the others are learnt from the
        // farthest peer's answer, which names everybody)
        cfgs.push(QCfg { predicate, pool: false, n_peers: 7, initial: vec![6], parallelism: par, num_results: k, max_report: 0, half_steps: true, deep: true, companion: false });
    }
    let budget = mc::budget(thorough, 30.0, 0.6);
    let depth: usize = std::env::var("VERIF_DEPTH").ok().and_then(|v| v.parse().ok()).unwrap_or(if thorough { 40 } else { 6 });
    let start = clock::wall();
    let (mut states, mut trans, mut execs) = (0u64, 0u64, 0u64);
    let mut counters: BTreeMap<&'static str, u64> = BTreeMap::new();
    let mut exhaustive_all = true;
    let mut complete_cfgs = 0u64;
    let mut caps = vec![];
    let mut terminals = 0usize;
    let mut found = vec![];
    let per_cfg = budget / cfgs.len() as f64;
    for cfg in &cfgs {
        let remaining = budget - (clock::wall() - start);
        if remaining < 0.5 {
            exhaustive_all = false;
            caps.push("wall budget exhausted before all configurations".to_string());
            break;
        }
        let limits = Limits { max_budget: 0, max_depth: if cfg.deep && !thorough { 15 } else { depth }, max_states: 5_000_000, wall_s: if cfg.deep { remaining.min(mc::budget(thorough, 25.0, 0.1)) } else { remaining.min(per_cfg * 3.0) } };
        let mut vio = vec![];
        let mut samples = vec![];
        let stats = mc::explore(&limits, |h: &[QEv]| run_query(cfg, h), |v, _| vio.push(v), |h, _| samples.push(format!("{:?}", h)));
        states += stats.states;
        trans += stats.transitions;
        execs += stats.executions;
        terminals += stats.distinct_terminals;
        for (k, v) in stats.counters {
            *counters.entry(k).or_insert(0) += v;
        }
        if stats.exhaustive {
            complete_cfgs += 1;
        } else {
            exhaustive_all = false;
            caps.push(format!("{:?}: {}", cfg, stats.cap.unwrap_or_default()));
        }
        if let Some(s) = samples.into_iter().last() {
            rep.sample(json!({"cfg":format!("{:?}",cfg),"history":s}));
        }
        found.extend(vio);
    }
    // service level: the real Discv5::find_node / find_node_predicate over a scripted handler
    let svc = crate::lookup::search(thorough, mc::budget(thorough, 25.0, 0.4));
    rep.set("service_level_states", svc.states);
    rep.set("service_level_executions", svc.executions);
    for (k, v) in &svc.counters {
        rep.set(&format!("service_activations_{k}"), *v);
    }
    states += svc.states;
    trans += svc.transitions;
    execs += svc.executions;
    if !svc.exhaustive {
        exhaustive_all = false;
        caps.push("service-level lookup search hit its wall budget".to_string());
    }
    for s in svc.samples.into_iter().take(2) {
        rep.sample(s);
    }
    found.extend(svc.violations);
    rep.set("states", states);
    rep.set("transitions", trans);
    rep.set("traces_validated_against_impl", execs);
    rep.set("configurations", cfgs.len() as u64);
    rep.set("configurations_explored_to_bound", complete_cfgs);
    rep.set("depth_bound", depth as u64);
    rep.set("distinct_terminal_observations", terminals as u64);
    rep.set("exhaustive", exhaustive_all);
    if !caps.is_empty() {
        rep.set("caps", json!(caps.iter().take(8).collect::<Vec<_>>()));
    }
    rep.set("evaluations", execs);
    rep.set("distinct_nontrivial", states);
    for (k, v) in &counters {
        rep.set(&format!("activations_{k}"), *v);
    }
    rep.set("rule", "explicit-state BFS over event histories {poll, success(p, reported set ≤ 2 incl. the target id, duplicates, closer/farther), failure(p), peer-timeout, query-timeout} on the real FindNodeQuery / PredicateQuery / QueryPool; state = history re-executed on a fresh query; fingerprint = per-peer state (instants scrubbed to elapsed?/not) + harness ledger; every state is additionally run to completion by the default policy and the result clauses evaluated there");
    rep.assume("service level (real Discv5::find_node / find_node_predicate over a scripted handler): every emitted request eventually gets a response or a failure report from the handler (C04's guarantee); the pool is only polled when the service task wakes, so time passing is followed by a neutral wake-up");
    rep.assume("quick tier bounds the history depth; states beyond the bound are still run to completion by the default policy");
    for v in found {
        let is_c10 = v.key.starts_with("c10:");
        if is_c10 == (prop == "C10") || v.key.starts_with("panic:") {
            rep.violation(v);
        }
    }
    for k in ["issuances", "finished", "effective_successes", "late_or_duplicate_answers"] {
        if counters.get(k).copied().unwrap_or(0) == 0 {
            rep.vacuous(&format!("{prop} vacuous: {k} = 0"));
        }
    }
    rep.finish();
}
