#!/bin/bash
# Confirms a seeded change produced by a sub-agent and runs our checks against it.
#   tools/seed_eval.sh <seed-dir> <worktree> <name> <check ids...>
# 1. worktree: patch applies, 121 tests pass with it, demo fails with it and passes without it
# 2. /repo: apply patch, run the given quick checks, revert
set -u
SEED=$1; WT=$2; NAME=$3; shift 3
export CARGO_TARGET_DIR=$WT/target
PHASE=${SEED_PHASE:-all}   # confirm | checks | all  (confirm phases of different worktrees can run in parallel)
T=""; D1=""; D2=""
if [ $PHASE != checks ]; then
cd $WT || exit 2
git checkout -q -- . && git clean -fdq -e target
echo "== confirm in worktree"
git apply $SEED/patch.diff || { echo "PATCH DOES NOT APPLY"; exit 2; }
T=$(unshare -n bash -c "ip link set lo up; cargo test --offline --lib" 2>&1 | grep "^test result" | head -1); echo "suite with patch: $T"
git apply $SEED/demo.diff || { echo "DEMO DOES NOT APPLY"; }
CMD=$(grep -v '^#' $SEED/demo_cmd.txt | grep cargo | head -1 | sed "s|cd [^ ]* && ||; s|CARGO_TARGET_DIR=[^ ]* ||")
echo "demo cmd: $CMD"
D1=$(unshare -n bash -c "ip link set lo up; $CMD" 2>&1 | grep "^test result" | tr '\n' ' '); echo "demo with patch: $D1"
git apply -R $SEED/patch.diff
D2=$(unshare -n bash -c "ip link set lo up; $CMD" 2>&1 | grep "^test result" | tr '\n' ' '); echo "demo without patch: $D2"
git checkout -q -- . && git clean -fdq -e target
echo "CONFIRM $NAME suite=[$T] demo_with=[$D1] demo_without=[$D2]"
fi
[ $PHASE = confirm ] && exit 0
echo "== our checks against /repo + patch"
cd /verif
# SEED_ISOLATED=1: do not touch /repo; run the checks in a private mount namespace in which a patched
# copy of /repo is bind-mounted over /repo (needed while a long background run depends on /repo)
if [ "${SEED_ISOLATED:-0}" = 1 ]; then
  COPY=/tmp/seedrepo-$NAME
  rsync -a --delete --exclude target --exclude .git /repo/ $COPY/
  (cd $COPY && git apply $SEED/patch.diff) || { echo "PATCH DOES NOT APPLY TO /repo"; rm -rf $COPY; exit 2; }
  RES=""
  for c in "$@"; do
    OUT=$(unshare -m bash -c "mount --bind $COPY /repo && cd /verif && VERIF_OUT=/tmp/seedout-$NAME ./check $c quick" 2>&1)
    CODE=$?
    KEY=$(echo "$OUT" | grep -m1 "key:" | sed 's/^ *//')
    echo "check $c -> exit $CODE  $KEY"
    RES="$RES $c:$CODE"
  done
  rm -rf $COPY
  echo "RESULT $NAME suite=[$T] demo_with=[$D1] demo_without=[$D2] checks=[$RES]"
  exit 0
fi
git -C /repo apply $SEED/patch.diff || { echo "PATCH DOES NOT APPLY TO /repo"; exit 2; }
RES=""
for c in "$@"; do
  OUT=$(VERIF_OUT=/tmp/seedout-$NAME ./check $c quick 2>&1)
  CODE=$?
  KEY=$(echo "$OUT" | grep -m1 "key:" | sed 's/^ *//')
  echo "check $c -> exit $CODE  $KEY"
  RES="$RES $c:$CODE"
done
git -C /repo checkout -- .
git -C /repo status --short | head -3
echo "RESULT $NAME suite=[$T] demo_with=[$D1] demo_without=[$D2] checks=[$RES]"
