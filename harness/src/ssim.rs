//! Engine `ssim`: the real Service / Discv5 over a scripted handler.
use crate::clock;
use crate::mc::{self, Limits, Outcome, Report, Violation};
use crate::rt;
use crate::snode::{SNode, SNodeSpec};
use crate::util;
use discv5::enr::NodeId;
use discv5::verif::{self as v, HandlerIn, HandlerOut};
use discv5::{Enr, Event, ListenConfig, NodeAddress, TalkRequest};
use serde_json::json;
use std::collections::{BTreeMap, HashMap};
use std::net::{Ipv4Addr, SocketAddr};

pub fn listen4(port: u16) -> ListenConfig {
    ListenConfig::Ipv4 { ip: Ipv4Addr::new(10, 0, 0, 1), port }
}

fn vio(clause: &str, key: &str, detail: String) -> Violation {
    Violation { clause: clause.into(), key: key.into(), detail, replay: json!(null) }
}

/* ------------------------------------------------------------------------------------ */
/* C20: every TALK request answered exactly once                                         */
/* ------------------------------------------------------------------------------------ */

#[derive(Clone, Debug, PartialEq, Eq, Hash)]
pub enum TEv {
    Deliver(u8),
    Respond(u8),
    Drop(u8),
    Shutdown,
}

fn talk_reqs() -> Vec<(NodeAddress, Vec<u8>, Vec<u8>)> {
    let mut v = talk_reqs_base();
    if std::env::var("VERIF_TIER_ARG").map(|t| t == "thorough").unwrap_or(false) {
        // a fourth request: empty id, third peer, IPv6 source
        let c = NodeAddress { socket_addr: "[2001:db8::4]:9000".parse().unwrap(), node_id: util::node_id(&util::key(43)) };
        v.push((c, vec![], b"q3".to_vec()));
    }
    v
}

fn talk_reqs_base() -> Vec<(NodeAddress, Vec<u8>, Vec<u8>)> {
    let a = NodeAddress { socket_addr: util::v4(10, 0, 0, 2, 9000), node_id: util::node_id(&util::key(41)) };
    let b = NodeAddress { socket_addr: util::v4(10, 0, 0, 3, 9000), node_id: util::node_id(&util::key(42)) };
    // the third request reuses the id bytes of the first one, from another node address
    vec![(a.clone(), vec![1], b"q0".to_vec()), (a, vec![2], b"q1".to_vec()), (b, vec![1], b"q2".to_vec())]
}

async fn run_c20_async(known: bool, hist: &[TEv]) -> Outcome<TEv> {
    let mut node = SNode::start(SNodeSpec { keyno: 40, listen: listen4(9000), enr: None }, |_| {}, true).await;
    let reqs = talk_reqs();
    if known {
        // both requesters are in the routing table; the first one's record advertises another
        // socket than the one its requests come from (moved / NATed peer)
        node.discv5.add_enr(util::enr4(&util::key(41), 3, util::v4(10, 0, 0, 99, 9999))).expect("add");
        node.discv5.add_enr(util::enr4(&util::key(42), 1, util::v4(10, 0, 0, 3, 9000))).expect("add");
    }
    let n = reqs.len();
    let mut delivered = vec![false; n];
    let mut held: HashMap<u8, TalkRequest> = HashMap::new();
    // acted: Some((payload expected, while_running))
    let mut acted: Vec<Option<(Vec<u8>, bool)>> = vec![None; n];
    let mut responses: Vec<Vec<Vec<u8>>> = vec![vec![]; n];
    let mut shutdown = false;
    let mut chain = vec![];
    let mut prev = None;
    let mut violation: Option<Violation> = None;
    let mut counters: BTreeMap<&'static str, u64> = BTreeMap::new();
    for (i, ev) in hist.iter().enumerate() {
        if i + 1 == hist.len() {
            counters.clear();
        }
        let mut obs = String::new();
        match ev {
            TEv::Deliver(k) => {
                let (addr, id, body) = &reqs[*k as usize];
                let req = v::Request { id: v::RequestId(id.clone()), body: v::RequestBody::Talk { protocol: b"proto".to_vec(), request: body.clone() } };
                let ok = node.try_inject(HandlerOut::Request(addr.clone(), Box::new(req)));
                rt::settle().await;
                delivered[*k as usize] = true;
                obs = format!("deliver {ok}");
            }
            TEv::Respond(k) => {
                let t = held.remove(k).expect("held");
                let payload = vec![0xa0 + *k];
                let r = std::panic::catch_unwind(std::panic::AssertUnwindSafe(|| t.respond(payload.clone())));
                match r {
                    Err(_) => violation = Some(vio("responding after shutdown is harmless (no panic)", "talk:respond-panic", format!("respond({k}) panicked, shutdown={shutdown}"))),
                    Ok(res) => {
                        if shutdown {
                            *counters.entry("respond_after_shutdown").or_insert(0) += 1;
                            if res.is_ok() {
                                // accepted into a channel nobody reads: still "harmless"; not a violation
                            }
                        } else if res.is_err() {
                            violation = Some(vio("while running each TALKREQ leads to exactly one TALKRESP", "talk:respond-err-running", format!("respond({k}) returned {:?} while running", res)));
                        }
                        obs = format!("respond {}", res.is_ok());
                    }
                }
                acted[*k as usize] = Some((payload, !shutdown));
                rt::settle().await;
            }
            TEv::Drop(k) => {
                let t = held.remove(k).expect("held");
                let r = std::panic::catch_unwind(std::panic::AssertUnwindSafe(|| drop(t)));
                if r.is_err() {
                    violation = Some(vio("dropping a request after shutdown is harmless (no panic)", "talk:drop-panic", format!("drop({k}) panicked, shutdown={shutdown}")));
                }
                if shutdown {
                    *counters.entry("drop_after_shutdown").or_insert(0) += 1;
                }
                acted[*k as usize] = Some((vec![], !shutdown));
                rt::settle().await;
                obs = "drop".into();
            }
            TEv::Shutdown => {
                node.discv5.shutdown();
                rt::settle().await;
                shutdown = true;
                obs = "shutdown".into();
            }
        }
        // absorb
        for e in node.drain_events() {
            if let Event::TalkRequest(t) = e {
                let k = reqs.iter().position(|(a, id, body)| &a.node_id == t.node_id() && id == &t.id().0 && body == t.body());
                match k {
                    Some(k) if !held.contains_key(&(k as u8)) && acted[k].is_none() => {
                        held.insert(k as u8, t);
                        *counters.entry("talk_events").or_insert(0) += 1;
                    }
                    _ => {
                        violation = Some(vio("each TALKREQ is delivered to the application once, as received", "talk:spurious-event", format!("unexpected TalkRequest {:?}", t.id())));
                        std::mem::forget(t);
                    }
                }
            }
        }
        for h in node.drain_handler_in() {
            match h {
                HandlerIn::Response(addr, resp) => {
                    if let v::ResponseBody::Talk { response } = &resp.body {
                        match reqs.iter().position(|(a, id, _)| a == &addr && id == &resp.id.0) {
                            Some(k) => responses[k].push(response.clone()),
                            None => violation = Some(vio("a TALKRESP goes to the node address the request came from, with its id", "talk:misaddressed", format!("TALKRESP to {addr} id {:?}", resp.id))),
                        }
                    }
                }
                other => {
                    violation = Some(vio("harness", "talk:unexpected-handler-in", format!("{:?}", other).chars().take(120).collect()));
                }
            }
        }
        // ledger: per request
        for k in 0..n {
            let want: usize = match &acted[k] {
                Some((_, true)) => 1,
                _ => 0,
            };
            if responses[k].len() > 1 {
                violation = Some(vio("never a second response", "talk:double-response", format!("request {k}: {} responses", responses[k].len())));
            } else if responses[k].len() != want {
                let key = if want == 1 { "talk:no-response" } else { "talk:unsolicited-response" };
                // after shutdown a response may or may not be emitted; only the running case is fixed
                if want == 1 || acted[k].is_none() {
                    violation = Some(vio("while running each TALKREQ leads to exactly one TALKRESP", key, format!("request {k}: {} responses, expected {want}", responses[k].len())));
                }
            } else if want == 1 && responses[k][0] != acted[k].as_ref().unwrap().0 {
                violation = Some(vio("the response carries the application's payload, or an empty one if the request object is dropped", "talk:payload", format!("request {k}: {:?}", responses[k][0])));
            }
        }
        let c = mc::chain(prev, &obs);
        chain.push(c);
        prev = Some(c);
        if violation.is_some() {
            break;
        }
    }
    // enabled events
    let mut enabled = vec![];
    if violation.is_none() {
        for k in 0..n as u8 {
            if !delivered[k as usize] && !shutdown {
                enabled.push(TEv::Deliver(k));
            }
            if held.contains_key(&k) {
                enabled.push(TEv::Respond(k));
                enabled.push(TEv::Drop(k));
            }
        }
        if !shutdown {
            enabled.push(TEv::Shutdown);
        }
    }
    let held_keys: Vec<u8> = {
        let mut h: Vec<u8> = held.keys().copied().collect();
        h.sort();
        h
    };
    let fp = mc::fp_of(&(delivered.clone(), held_keys, acted.clone(), responses.clone(), shutdown));
    // leftover objects: dropping them at the end of the world must not panic either
    let r = std::panic::catch_unwind(std::panic::AssertUnwindSafe(|| drop(held)));
    if r.is_err() && violation.is_none() {
        violation = Some(vio("dropping a request is harmless (no panic)", "talk:drop-panic-end", "panic while dropping held TalkRequests".into()));
    }
    if let Some(x) = violation.as_mut() {
        x.replay = json!({"engine":"ssim","check":"C20","history":format!("{:?}",hist)});
    }
    let steps = hist.len() as u64;
    Outcome { fp, enabled: enabled.into_iter().map(|e| (e, 0)).collect(), obs_chain: chain, violation, counters, terminal: Some(format!("{:?}", responses)), steps }
}

pub fn run_c20() {
    let mut rep = Report::new("C20", "model_checking");
    let limits = Limits { max_budget: 0, max_depth: 16, max_states: 2_000_000, wall_s: mc::budget(rep.thorough(), 45.0, 1.0) };
    let mut found = vec![];
    let mut samples = vec![];
    let mut stats = mc::explore(&limits, |h: &[TEv]| rt::run(run_c20_async(false, h)), |v, _| found.push(v), |h, _| samples.push(format!("{:?}", h)));
    // second world: the requesters are known to the routing table
    let s2 = mc::explore(&limits, |h: &[TEv]| rt::run(run_c20_async(true, h)), |v, _| found.push(v), |h, _| samples.push(format!("known requesters: {:?}", h)));
    stats.states += s2.states;
    stats.transitions += s2.transitions;
    stats.executions += s2.executions;
    stats.distinct_terminals += s2.distinct_terminals;
    stats.exhaustive &= s2.exhaustive;
    for (k, v) in s2.counters {
        *stats.counters.entry(k).or_insert(0) += v;
    }
    rep.set("states", stats.states);
    rep.set("transitions", stats.transitions);
    rep.set("traces_validated_against_impl", stats.executions);
    rep.set("evaluations", stats.executions);
    rep.set("distinct_nontrivial", stats.states);
    rep.set("max_depth", stats.max_depth as u64);
    rep.set("distinct_terminal_observations", stats.distinct_terminals as u64);
    rep.set("exhaustive", stats.exhaustive);
    if let Some(c) = &stats.cap {
        rep.set("cap", c.clone());
    }
    for (k, v) in &stats.counters {
        rep.set(&format!("activations_{k}"), *v);
    }
    for s in samples.into_iter().take(3) {
        rep.sample(json!({"history": s}));
    }
    rep.set("rule", "explicit-state BFS over all interleavings of {deliver TALKREQ i (two from one peer, one from another reusing an id), respond(i), drop(i), shutdown} on a real Discv5 with a scripted handler, once with unknown requesters and once with both requesters in the routing table (one with a record advertising another socket than its source); state = history re-executed on a fresh service; exhaustive (the graph is finite)");
    rep.assume("the scripted handler emulates the real one in one respect: it drops its receiver when the service tells it to exit");
    // handler part: the response must also leave the node (real handlers, held request, own
    // request to the requester lost and timed out meanwhile)
    let (hst, hvio) = crate::hdrive::c20_part(rep.thorough());
    rep.set("handler_level_states", hst.states);
    rep.set("handler_level_executions", hst.executions);
    for k in ["timer_steps_with_a_held_request", "responses_put_on_the_wire", "responses_of_exactly_1280_bytes"] {
        rep.set(&format!("handler_level_{k}"), hst.counters.get(k).copied().unwrap_or(0));
    }
    if !hst.exhaustive {
        rep.set("exhaustive", false);
        rep.set("cap", hst.cap.clone().unwrap_or_default());
    }
    // ... and the attacker worlds: a request enclosed in a handshake (peer's record verifiable or
    // not) is delivered under a session that is still there afterwards, and its answer is sent
    let thorough_c20 = rep.thorough();
    let (ast, avio, _) = crate::attack::explore("C20", thorough_c20, mc::budget(thorough_c20, 20.0, 0.3), if thorough_c20 { 3 } else { 2 });
    rep.set("attacker_worlds_states", ast.states);
    if !ast.exhaustive {
        rep.set("exhaustive", false);
    }
    for v in found.into_iter().chain(hvio.into_iter()).chain(avio.into_iter()) {
        rep.violation(v);
    }
    if hst.counters.get("responses_of_exactly_1280_bytes").copied().unwrap_or(0) == 0 {
        rep.vacuous("C20 vacuous: no response of exactly 1280 bytes in the handler-level worlds");
    }
    if hst.counters.get("timer_steps_with_a_held_request").copied().unwrap_or(0) == 0 {
        rep.vacuous("C20 vacuous: no timer step with a held request in the handler-level worlds");
    }
    for k in ["talk_events", "respond_after_shutdown", "drop_after_shutdown"] {
        if stats.counters.get(k).copied().unwrap_or(0) == 0 {
            rep.vacuous(&format!("C20 vacuous: {k} = 0"));
        }
    }
    rep.finish();
}

#[allow(dead_code)]
pub fn unused(_: &Enr, _: NodeId, _: SocketAddr) {
    let _ = clock::wall();
}

/* ------------------------------------------------------------------------------------ */
/* Key pool: real keys sorted by log2 distance from a local id                           */
/* ------------------------------------------------------------------------------------ */

pub struct KeyPool {
    /// log2 distance → key numbers
    pub by_distance: BTreeMap<u64, Vec<u16>>,
}

pub fn key_pool(local: &NodeId, first: u16, count: u16) -> KeyPool {
    thread_local! {
        static IDS: std::cell::RefCell<HashMap<u16, NodeId>> = std::cell::RefCell::new(HashMap::new());
    }
    let mut by_distance: BTreeMap<u64, Vec<u16>> = BTreeMap::new();
    IDS.with(|ids| {
        let mut ids = ids.borrow_mut();
        for i in first..first + count {
            let id = *ids.entry(i).or_insert_with(|| util::node_id(&util::key(i)));
            by_distance.entry(util::log2_distance(local, &id)).or_default().push(i);
        }
    });
    KeyPool { by_distance }
}

thread_local! {
    static ENR_CACHE: std::cell::RefCell<HashMap<(u16, u64, usize, u8), Enr>> = std::cell::RefCell::new(HashMap::new());
}

/// Record of key `k`: `big` pads it to the maximum size (300 bytes), `net` picks the address.
pub fn record(k: u16, seq: u64, big: bool, net: u8) -> Enr {
    ENR_CACHE.with(|c| {
        c.borrow_mut()
            .entry((k, seq, big as usize, net))
            .or_insert_with(|| {
                let key = util::key(k);
                let ip4 = Some((Ipv4Addr::new(10, net, (k >> 8) as u8, k as u8), 9000));
                if !big {
                    return util::enr(&key, &util::EnrSpec { seq, ip4, ip6: None, pad: 0 });
                }
                let mut best = None;
                for pad in 100..260 {
                    match util::try_enr(&key, &util::EnrSpec { seq, ip4, ip6: None, pad }) {
                        Some(e) if alloy_rlp::encode(&e).len() <= 300 => best = Some(e),
                        _ => break,
                    }
                }
                best.expect("padded record")
            })
            .clone()
    })
}

/// Record of key `k` whose RLP encoding is as close to `len` bytes as possible from below.
pub fn record_sized(k: u16, len: usize, net: u8) -> Option<Enr> {
    let key = util::key(k);
    let ip4 = Some((Ipv4Addr::new(10, net, (k >> 8) as u8, k as u8), 9000));
    let mut best = None;
    for pad in 1..260 {
        if let Some(e) = util::try_enr(&key, &util::EnrSpec { seq: 1, ip4, ip6: None, pad }) {
            let l = alloy_rlp::encode(&e).len();
            if l > len {
                break;
            }
            best = Some(e);
        } else {
            break;
        }
    }
    best
}

/* ------------------------------------------------------------------------------------ */
/* C14: served FINDNODE / PING answers                                                   */
/* ------------------------------------------------------------------------------------ */

struct C14Stats {
    worlds: u64,
    requests: u64,
    responses: u64,
    multi_packet: u64,
    max_wire: usize,
    capped: u64,
    pings: u64,
    distinct: std::collections::HashSet<u128>,
}

async fn c14_world(max_resp: usize, fills: [usize; 3], big: bool, sizes: &[usize], lists: &[Vec<u64>], st: &mut C14Stats, problems: &mut Vec<Violation>, samples: &mut Vec<serde_json::Value>) {
    let local_key = 60u16;
    let local_id = util::node_id(&util::key(local_key));
    let local_enr = record(local_key, 1, big, 0);
    let listen = ListenConfig::Ipv4 { ip: Ipv4Addr::new(10, 0, 0, local_key as u8), port: 9000 };
    let mut node = SNode::start(SNodeSpec { keyno: local_key, listen, enr: Some(local_enr) }, |b| { b.max_nodes_response(max_resp); }, false).await;
    let pool = key_pool(&local_id, 1000, 900);
    let dists = [256u64, 255, 254];
    let mut table: HashMap<u64, Vec<Enr>> = HashMap::new();
    for (d, f) in dists.iter().zip(fills.iter()) {
        let ks = pool.by_distance.get(d).cloned().unwrap_or_default();
        if ks.len() < *f {
            mc::machinery(&format!("key pool too small for distance {d}"));
        }
        for (j, k) in ks.iter().take(*f).enumerate() {
            let e = if *d == 256 && j < sizes.len() {
                match record_sized(*k, sizes[j], 1) {
                    Some(e) => e,
                    None => mc::machinery(&format!("cannot build a record of {} bytes", sizes[j])),
                }
            } else {
                record(*k, 1, big, 1)
            };
            node.discv5.add_enr(e.clone()).expect("add_enr");
            table.entry(*d).or_default().push(e);
        }
    }
    st.worlds += 1;
    let mut session = v::VSession::from_keys([7; 16], [8; 16]);
    // requester: unknown, or stored in bucket 256
    let stored_requester = table.get(&256).and_then(|v| v.first().cloned());
    let unknown = NodeAddress { socket_addr: util::v4(10, 9, 9, 9, 30303), node_id: util::node_id(&util::key(77)) };
    let unknown6 = NodeAddress { socket_addr: "[2001:db8::7]:30303".parse().unwrap(), node_id: util::node_id(&util::key(78)) };
    let mut requesters = vec![unknown, unknown6];
    if let Some(e) = &stored_requester {
        requesters.push(NodeAddress { socket_addr: e.udp4_socket().unwrap().into(), node_id: e.node_id() });
    }
    let mut rid = 0usize;
    for (ri, requester) in requesters.iter().enumerate() {
        for list in lists {
            if ri == 1 && list.len() > 1 {
                continue; // the v6 requester only repeats the short lists
            }
            rid += 1;
            let id: Vec<u8> = (0..(rid % 9)).map(|i| (rid + i) as u8).collect();
            let req = v::Request { id: v::RequestId(id.clone()), body: v::RequestBody::FindNode { distances: list.clone() } };
            node.inject(HandlerOut::Request(requester.clone(), Box::new(req))).await;
            st.requests += 1;
            let out = node.drain_handler_in();
            let mk = |clause: &str, key: &str, detail: String| {
                let mut v = vio(clause, key, detail);
                v.replay = json!({"engine":"ssim","check":"C14","max_nodes_response":max_resp,"fills":fills,"big_records":big,"record_sizes":sizes,"distances":list,"requester_stored":ri==2});
                v
            };
            let mut returned: Vec<Enr> = vec![];
            let mut totals = vec![];
            let mut count = 0u64;
            for h in out {
                match h {
                    HandlerIn::Response(addr, resp) => {
                        count += 1;
                        if &addr != requester || resp.id.0 != id {
                            problems.push(mk("every packet carries the request's id and goes to the requester", "findnode:misaddressed", format!("to {addr} id {:?}", resp.id)));
                        }
                        let wire = {
                            let bytes = (*resp).clone().encode();
                            session.encrypt_message(local_id, &bytes).map(|p| p.encode(&requester.node_id).len()).unwrap_or(usize::MAX)
                        };
                        st.max_wire = st.max_wire.max(wire);
                        if wire > 1280 {
                            problems.push(mk("each packet encodes to at most 1280 bytes on the wire", "findnode:oversize", format!("{wire} bytes")));
                        }
                        match resp.body {
                            v::ResponseBody::Nodes { total, nodes } => {
                                totals.push(total);
                                returned.extend(nodes);
                            }
                            other => problems.push(mk("a FINDNODE is answered with NODES", "findnode:wrong-type", format!("{:?}", other))),
                        }
                    }
                    other => problems.push(mk("harness", "findnode:unexpected", format!("{:?}", other).chars().take(100).collect())),
                }
            }
            st.responses += count;
            if count > 1 {
                st.multi_packet += 1;
            }
            if count == 0 || totals.iter().any(|t| *t != count) {
                problems.push(mk("all packets carry a total equal to the number of packets", "findnode:total", format!("{count} packets, totals {:?}", totals)));
            }
            // expected records
            let mut distinct: Vec<u64> = vec![];
            for d in list {
                if !distinct.contains(d) {
                    distinct.push(*d);
                }
            }
            let want_own = distinct.contains(&0);
            let mut eligible: Vec<Enr> = vec![];
            let mut with_requester = 0usize;
            for d in &distinct {
                if let Some(es) = table.get(d) {
                    for e in es {
                        with_requester += 1;
                        if e.node_id() != requester.node_id {
                            eligible.push(e.clone());
                        }
                    }
                }
            }
            let current_local = node.discv5.local_enr();
            let own_returned = returned.iter().filter(|e| **e == current_local).count();
            if own_returned != want_own as usize {
                problems.push(mk("its own record iff distance 0 is requested", "findnode:own-record", format!("own record returned {own_returned} times, distance 0 requested: {want_own}")));
            }
            let others: Vec<&Enr> = returned.iter().filter(|e| **e != current_local).collect();
            if others.iter().any(|e| e.node_id() == requester.node_id) {
                problems.push(mk("never the requester's own record", "findnode:requester-record", "requester's record returned".into()));
            }
            let mut seen = std::collections::HashSet::new();
            for e in &others {
                if !seen.insert(e.node_id()) {
                    problems.push(mk("records are exactly the table entries at the requested distances", "findnode:duplicate", format!("{}", e.node_id())));
                }
                if !eligible.iter().any(|x| x == *e) {
                    problems.push(mk("records are exactly the table entries at the requested distances", "findnode:foreign-record", format!("{} at distance {}", e.node_id(), util::log2_distance(&local_id, &e.node_id()))));
                }
            }
            if with_requester <= max_resp {
                if others.len() != eligible.len() {
                    problems.push(mk("records are exactly the table entries at the requested distances", "findnode:missing-record", format!("{} returned, {} stored at the requested distances", others.len(), eligible.len())));
                }
            } else {
                st.capped += 1;
                if others.len() > max_resp || others.len() + 1 < max_resp.min(eligible.len()) {
                    problems.push(mk("at most the configured maximum (plus its own record)", "findnode:cap", format!("{} returned, cap {max_resp}, eligible {}", others.len(), eligible.len())));
                }
            }
            st.distinct.insert(mc::fp_of(&(max_resp, fills, big, list, ri)));
            if samples.len() < 4 && count > 1 {
                samples.push(json!({"max_nodes_response":max_resp,"bucket_fills(256,255,254)":fills,"big_records":big,"distances":list,"packets":count,"records":returned.len()}));
            }
            if problems.len() > 10 {
                return;
            }
        }
    }
    // PING
    let mut seq = node.discv5.local_enr().seq();
    for round in 0..2 {
        for (ip, port) in [("10.1.2.3", 1u16), ("10.1.2.3", 9000), ("203.0.113.9", 65535), ("2001:db8::9", 4242)] {
            let src: SocketAddr = SocketAddr::new(ip.parse().unwrap(), port);
            let addr = NodeAddress { socket_addr: src, node_id: util::node_id(&util::key(79)) };
            let id = vec![round as u8, port as u8];
            node.inject(HandlerOut::Request(addr.clone(), Box::new(v::Request { id: v::RequestId(id.clone()), body: v::RequestBody::Ping { enr_seq: 1 } }))).await;
            st.pings += 1;
            let out = node.drain_handler_in();
            let pongs: Vec<_> = out
                .iter()
                .filter_map(|h| match h {
                    HandlerIn::Response(a, r) => Some((a.clone(), (**r).clone())),
                    _ => None,
                })
                .collect();
            let ok = pongs.len() == 1
                && pongs[0].0 == addr
                && pongs[0].1.id.0 == id
                && matches!(&pongs[0].1.body, v::ResponseBody::Pong { enr_seq, ip: i, port: p } if *enr_seq == seq && *i == src.ip() && p.get() == port);
            if !ok || out.len() != 1 {
                let mut v = vio("every PING is answered with one PONG carrying the current sequence number and the observed source", "ping:pong", format!("from {src}: {:?}", pongs));
                v.replay = json!({"engine":"ssim","check":"C14","ping_from":src.to_string(),"round":round});
                problems.push(v);
            }
        }
        // bump the local sequence number
        node.discv5.enr_insert("x", &1u8).expect("enr_insert");
        let s2 = node.discv5.local_enr().seq();
        if s2 <= seq {
            mc::machinery("sequence number did not increase");
        }
        seq = s2;
    }
}

pub fn run_c14() {
    let mut rep = Report::new("C14", "exploration");
    let thorough = rep.thorough();
    let alpha: Vec<u64> = vec![0, 256, 255, 254, 7];
    let mut lists: Vec<Vec<u64>> = vec![vec![]];
    for a in &alpha {
        lists.push(vec![*a]);
        for b in &alpha {
            lists.push(vec![*a, *b]);
            if thorough {
                for c in &alpha {
                    lists.push(vec![*a, *b, *c]);
                }
            }
        }
    }
    lists.push(vec![254, 255, 256, 0]);
    lists.push(vec![256, 0, 256, 255, 254, 254, 7]);
    lists.push((0..=256u64).collect());
    lists.push((0..=256u64).rev().collect());
    let fills_alpha: Vec<usize> = vec![0, 1, 15, 16];
    let mut worlds = vec![];
    let caps: Vec<usize> = if thorough { vec![1, 2, 3, 15, 16, 17, 32, 48] } else { vec![1, 3, 16, 17, 48] };
    for m in caps {
        for a in &fills_alpha {
            for b in &fills_alpha {
                for c in &fills_alpha {
                    for big in [false, true] {

                        worlds.push((m, [*a, *b, *c], big));
                    }
                }
            }
        }
    }
    // packing worlds: record sizes chosen so that the encoded records of one packet sum up to just
    // below / at / above the split threshold (1280 - 104)
    let mut worlds: Vec<(usize, [usize; 3], bool, Vec<usize>)> = worlds.into_iter().map(|(m, f, b)| (m, f, b, vec![])).collect();
    for last in 268..=280usize {
        worlds.push((16, [5, 2, 0], true, vec![300, 300, 300, last, 300]));
        worlds.push((16, [5, 0, 0], false, vec![300, 300, last, 300, 150]));
    }
    for a in [140usize, 146, 147, 148, 200] {
        worlds.push((48, [8, 0, 0], false, vec![a; 8]));
    }
    let results = mc::par_map(&worlds, |(m, f, big, sizes)| {
        let mut st = C14Stats { worlds: 0, requests: 0, responses: 0, multi_packet: 0, max_wire: 0, capped: 0, pings: 0, distinct: Default::default() };
        let mut problems = vec![];
        let mut samples = vec![];
        // a panic inside the service task (tokio swallows it; the scripted channel then closes) is the
        // subject's failure, not the harness'
        if let Err((loc, msg)) = mc::catch_subject_panic(|| rt::run(c14_world(*m, *f, *big, sizes, &lists, &mut st, &mut problems, &mut samples))) {
            problems.push(Violation { clause: "the implementation never panics".into(), key: format!("panic:{loc}"), detail: format!("panic at {loc}: {msg} (world with {m} table entries)"), replay: json!({"engine":"ssim","check":"C14","entries":m}) });
        }
        (st, problems, samples)
    });
    let mut tot = C14Stats { worlds: 0, requests: 0, responses: 0, multi_packet: 0, max_wire: 0, capped: 0, pings: 0, distinct: Default::default() };
    let mut problems = vec![];
    for (st, p, s) in results {
        tot.worlds += st.worlds;
        tot.requests += st.requests;
        tot.responses += st.responses;
        tot.multi_packet += st.multi_packet;
        tot.max_wire = tot.max_wire.max(st.max_wire);
        tot.capped += st.capped;
        tot.pings += st.pings;
        tot.distinct.extend(st.distinct);
        problems.extend(p);
        for x in s {
            rep.sample(x);
        }
    }
    rep.set("worlds", tot.worlds);
    rep.set("evaluations", tot.requests + tot.pings);
    rep.set("findnode_requests", tot.requests);
    rep.set("response_packets", tot.responses);
    rep.set("multi_packet_answers", tot.multi_packet);
    rep.set("answers_hitting_the_cap", tot.capped);
    rep.set("max_wire_bytes", tot.max_wire as u64);
    rep.set("pings", tot.pings);
    rep.set("distinct_nontrivial", tot.distinct.len() as u64);
    rep.set("exhaustive", true);
    rep.set("rule", "exhaustive enumeration of (max_nodes_response ∈ {1,16,48}) × (fill of buckets 256/255/254 ∈ {0,1,(15,)16}³) × (minimal | 300-byte records incl. the local one) × (distance lists: all ordered lists of length ≤ 2 (thorough 3) over {0,256,255,254,7}, ∅, duplicates, all of 0..256 in both orders) × (requester unknown v4 / unknown v6 / stored in a requested bucket), request ids of length 0..8; every emitted response is encrypted with the real Session::encrypt_message and encoded with the real Packet::encode to measure its wire size; plus packing worlds whose record sizes straddle the packet-split threshold; PINGs from 4 source addresses before and after a sequence-number bump. distinct = distinct (world, list, requester) triples");
    rep.assume("table entries come from real keys, so only the three highest buckets can be filled (lower buckets are requested but empty)");
    if rep.samples.is_empty() {
        rep.sample(json!({"note":"no multi-packet answer in this run"}));
    }
    // handler part of "every PING is answered": in the attacker worlds of C01 a PING enclosed in a
    // valid handshake (peer's record verifiable or not) must reach the application
    let thorough = rep.thorough();
    let (ast, avio, _) = crate::attack::explore("C14", thorough, mc::budget(thorough, 20.0, 0.3), if thorough { 3 } else { 2 });
    rep.set("handler_level_states", ast.states);
    rep.set("handler_level_executions", ast.executions);
    rep.set("handler_level_requests_in_genuine_handshakes_delivered", ast.counters.get("requests_in_genuine_handshakes_delivered").copied().unwrap_or(0));
    if !ast.exhaustive {
        rep.set("exhaustive", false);
        rep.set("cap", ast.cap.clone().unwrap_or_default());
    }
    problems.extend(avio);
    // ... and real handlers whose application answers (held requests, a 40-packet answer)
    let (hst, hvio) = crate::hdrive::c14_part(thorough);
    rep.set("handler_level_response_states", hst.states);
    for k in ["responses_put_on_the_wire", "response_bursts_above_30_datagrams"] {
        rep.set(&format!("handler_level_{k}"), hst.counters.get(k).copied().unwrap_or(0));
    }
    if !hst.exhaustive {
        rep.set("exhaustive", false);
    }
    problems.extend(hvio);
    for p in problems {
        rep.violation(p);
    }
    if hst.counters.get("response_bursts_above_30_datagrams").copied().unwrap_or(0) == 0 {
        rep.vacuous("C14 vacuous: no response burst above 30 datagrams in the handler-level worlds");
    }
    if ast.counters.get("requests_in_genuine_handshakes_delivered").copied().unwrap_or(0) == 0 {
        rep.vacuous("C14 vacuous: no genuine handshake with an enclosed request in the handler-level worlds");
    }
    if tot.multi_packet == 0 || tot.capped == 0 || tot.max_wire < 1270 {
        rep.vacuous("C14 vacuous: no multi-packet / capped / large answers");
    }
    rep.finish();
}

/* ------------------------------------------------------------------------------------ */
/* C17: external address updated only by a clear majority                                */
/* ------------------------------------------------------------------------------------ */

#[derive(Clone, Debug, PartialEq, Eq, Hash)]
pub enum VEv {
    /// voter i answers its oldest outstanding ping with address x
    Pong(u8, u8),
    /// the request of voter i fails (it becomes disconnected)
    Fail(u8),
    /// one ping interval passes
    PingRound,
    /// longer than the vote duration passes
    Expire,
    /// a peer that is not a voter establishes an incoming session (what a connectivity test waits for)
    Incoming,
}

#[derive(Clone, Debug)]
pub struct VCfg {
    pub dual: bool,
    pub min: usize,
    /// per voter: 0 connected outgoing, 1 connected incoming, 2 disconnected (added by the user)
    pub voters: Vec<u8>,
    pub addrs: u8,
    pub with_fail: bool,
    /// the application once fell behind: more events than the event channel holds were produced
    /// before it drained the stream (events are lost then, but later ones must still arrive)
    pub burst: bool,
    /// the ping interval (60 s) exceeds the vote lifetime (30 s), as with the default configuration
    pub slow_ping: bool,
    /// events replayed before the explored history (contested starting states)
    pub seed: Vec<VEv>,
    /// the connectivity test after an address change is enabled, with a waiting time (6 h) that no
    /// history reaches: no test ever fails, so every vote still counts
    pub autonat: bool,
    /// the application subscribes to the event stream a second time (holding on to the first
    /// receiver) and reads the new stream from then on
    pub resub: bool,
}

const VOTE_DURATION: std::time::Duration = std::time::Duration::from_secs(30);
const PING_INTERVAL: std::time::Duration = std::time::Duration::from_secs(10);

fn vote_addr(x: u8) -> SocketAddr {
    match x {
        0 => util::v4(198, 51, 100, 1, 30303),
        1 => util::v4(198, 51, 100, 2, 30303),
        2 => util::v4(198, 51, 100, 1, 30304),
        _ => "[2001:db8::aa]:30303".parse().unwrap(),
    }
}

async fn run_c17_async(cfg: &VCfg, hist: &[VEv]) -> Outcome<VEv> {
    let listen = if cfg.dual {
        ListenConfig::DualStack { ipv4: Ipv4Addr::new(10, 0, 0, 50), ipv4_port: 9000, ipv6: "2001:db8::50".parse().unwrap(), ipv6_port: 9000 }
    } else {
        ListenConfig::Ipv4 { ip: Ipv4Addr::new(10, 0, 0, 50), port: 9000 }
    };
    let min = cfg.min;
    let ping_interval = if cfg.slow_ping { std::time::Duration::from_secs(60) } else { PING_INTERVAL };
    let mut node = SNode::start(SNodeSpec { keyno: 50, listen, enr: None }, |b| {
        b.enr_peer_update_min(min);
        b.vote_duration(VOTE_DURATION);
        b.ping_interval(ping_interval);
        if cfg.autonat {
            b.auto_nat_listen_duration(Some(std::time::Duration::from_secs(6 * 3600)));
        }
    }, true).await;
    let mut _first_stream = None;
    if cfg.resub {
        let h = tokio::spawn(node.discv5.event_stream());
        rt::settle().await;
        if !h.is_finished() {
            mc::machinery("event_stream() did not resolve (second subscription)");
        }
        let second = h.await.unwrap().expect("event stream");
        _first_stream = node.events.replace(second);
    }
    let nv = cfg.voters.len();
    let mut voters: Vec<(Enr, NodeAddress)> = vec![];
    let mut violation: Option<Violation> = None;
    // outstanding service pings per voter (request ids, oldest first)
    let mut pings: Vec<Vec<v::RequestId>> = vec![vec![]; nv];
    let mut failed = vec![false; nv];
    for (i, kind) in cfg.voters.iter().enumerate() {
        let k = 51 + i as u16;
        let enr = record(k, 1, false, 2);
        let addr = NodeAddress { socket_addr: enr.udp4_socket().unwrap().into(), node_id: enr.node_id() };
        match kind {
            0 => node.inject(HandlerOut::Established(enr.clone(), addr.socket_addr, v::ConnectionDirection::Outgoing)).await,
            1 => node.inject(HandlerOut::Established(enr.clone(), addr.socket_addr, v::ConnectionDirection::Incoming)).await,
            _ => node.discv5.add_enr(enr.clone()).expect("add"),
        }
        voters.push((enr, addr));
        clock::advance(std::time::Duration::from_millis(10));
    }
    let absorb = |node: &mut SNode, pings: &mut Vec<Vec<v::RequestId>>, voters: &Vec<(Enr, NodeAddress)>| {
        let mut other = vec![];
        for h in node.drain_handler_in() {
            match h {
                HandlerIn::Request(contact, req) => {
                    if let v::RequestBody::Ping { .. } = req.body {
                        if let Some(i) = voters.iter().position(|(_, a)| a.node_id == contact.node_id()) {
                            pings[i].push(req.id.clone());
                            continue;
                        }
                    }
                    other.push(format!("{}", req.body));
                }
                o => other.push(format!("{:?}", o).chars().take(60).collect()),
            }
        }
        other
    };
    let _ = absorb(&mut node, &mut pings, &voters);
    let _ = node.drain_events();
    let mut burst_overflowed = false;
    if cfg.burst {
        // 130 TALK requests from a stranger while the application does not read its event stream
        // (capacity 100, or 30 without discovery reports): some events are lost; afterwards the
        // application catches up
        let stranger = NodeAddress { socket_addr: util::v4(10, 9, 9, 9, 9000), node_id: util::node_id(&util::key(99)) };
        for i in 0..130u8 {
            let req = v::Request { id: v::RequestId(vec![0xB0, i]), body: v::RequestBody::Talk { protocol: b"burst".to_vec(), request: vec![i] } };
            node.inject(HandlerOut::Request(stranger.clone(), Box::new(req))).await;
        }
        rt::settle().await;
        let got = node.drain_events().len();
        if got < 25 {
            mc::machinery(&format!("C17 burst world: only {got} events arrived"));
        }
        if got < 130 {
            burst_overflowed = true;
        }
        let _ = node.drain_handler_in();
    }
    // reference: voter -> (address index, expiry)
    // one vote per voter and address family (a dual-stack peer observes us on both)
    let mut votes: HashMap<(usize, bool), (u8, std::time::Instant)> = HashMap::new();
    // every PONG sent (voter, address, expiry): in worlds where the node's own policy decides which
    // PONGs count, only "at least `min` distinct peers sent an unexpired PONG with that address"
    // is independent of that policy
    let mut sent: Vec<(usize, u8, std::time::Instant)> = vec![];
    let mut chain = vec![];
    let mut prev = None;
    let mut counters: BTreeMap<&'static str, u64> = BTreeMap::new();
    let all_eligible = cfg.voters.iter().all(|k| *k == 0) && !cfg.with_fail && !cfg.dual;
    let full: Vec<VEv> = cfg.seed.iter().cloned().chain(hist.iter().cloned()).collect();
    let seed_len = cfg.seed.len();
    let hist = &full[..];
    for (step, ev) in hist.iter().enumerate() {
        if step + 1 == hist.len() {
            counters.clear();
        }
        clock::advance(std::time::Duration::from_millis(10));
        let before = node.discv5.local_enr();
        match ev {
            VEv::Pong(i, x) => {
                let id = pings[*i as usize].remove(0);
                let a = vote_addr(*x);
                let resp = v::Response { id, body: v::ResponseBody::Pong { enr_seq: 1, ip: a.ip(), port: a.port().try_into().unwrap() } };
                votes.insert((*i as usize, a.is_ipv4()), (*x, std::time::Instant::now() + VOTE_DURATION));
                sent.push((*i as usize, *x, std::time::Instant::now() + VOTE_DURATION));
                node.inject(HandlerOut::Response(voters[*i as usize].1.clone(), Box::new(resp))).await;
            }
            VEv::Fail(i) => {
                let id = pings[*i as usize].remove(0);
                failed[*i as usize] = true;
                node.inject(HandlerOut::RequestFailed(id, discv5::RequestError::Timeout)).await;
            }
            VEv::PingRound => {
                clock::advance(ping_interval);
                rt::settle().await;
                rt::settle().await;
            }
            VEv::Expire => {
                clock::advance(VOTE_DURATION + std::time::Duration::from_secs(1));
                rt::settle().await;
                rt::settle().await;
            }
            VEv::Incoming => {
                let n = hist[..step].iter().filter(|e| matches!(e, VEv::Incoming)).count() as u16;
                let enr = util::enr4(&util::key(70 + n), 1, util::v4(10, 8, 0, 1 + n as u8, 9000));
                let addr: SocketAddr = enr.udp4_socket().unwrap().into();
                node.inject(HandlerOut::Established(enr, addr, v::ConnectionDirection::Incoming)).await;
            }
        }
        let _ = absorb(&mut node, &mut pings, &voters);
        let after = node.discv5.local_enr();
        let events = node.drain_events();
        let updates: Vec<SocketAddr> = events.iter().filter_map(|e| if let Event::SocketUpdated(s) = e { Some(*s) } else { None }).collect();
        let now = std::time::Instant::now();
        let changed4 = before.udp4_socket() != after.udp4_socket();
        let changed6 = before.udp6_socket() != after.udp6_socket();
        let mk = |clause: &str, key: &str, detail: String| {
            let mut v = vio(clause, key, detail);
            v.replay = json!({"engine":"ssim","check":"C17","cfg":format!("{:?}",cfg),"history":format!("{:?}",&hist[..=step])});
            v
        };
        if changed4 || changed6 {
            *counters.entry("address_changes").or_insert(0) += 1;
            if burst_overflowed {
                *counters.entry("address_changes_after_event_overflow").or_insert(0) += 1;
            }
            let new: SocketAddr = if changed4 { after.udp4_socket().map(Into::into) } else { after.udp6_socket().map(Into::into) }.unwrap_or_else(|| "0.0.0.0:0".parse().unwrap());
            // tallies of the most recent unexpired votes
            let mut tally: BTreeMap<u8, usize> = BTreeMap::new();
            for (_v, (x, exp)) in votes.iter() {
                if *exp > now {
                    *tally.entry(*x).or_insert(0) += 1;
                }
            }
            let new_idx = (0..4u8).find(|x| vote_addr(*x) == new);
            let strict = new_idx.and_then(|x| tally.get(&x).copied()).unwrap_or(0);
            let lenient = {
                let mut who: Vec<usize> = sent.iter().filter(|(_, x, exp)| Some(*x) == new_idx && *exp > now).map(|(i, _, _)| *i).collect();
                who.sort();
                who.dedup();
                who.len()
            };
            let supporters = if all_eligible { strict } else { lenient };
            if supporters < cfg.min {
                violation = Some(mk("the address changes only to the most recent unexpired vote of at least the minimum number of distinct peers", "vote:below-minimum", format!("changed to {new} with {supporters} supporting voters (minimum {})", cfg.min)));
            } else if all_eligible {
                // clear-majority margin against every rival of the same address family
                let threshold = ((supporters as f64) * 0.7).round() as usize;
                for (x, c) in &tally {
                    if Some(*x) != new_idx && vote_addr(*x).is_ipv4() == new.is_ipv4() && (*c >= threshold || *c > supporters) {
                        violation = Some(mk("the new address leads every rival by the clear-majority margin", "vote:no-clear-majority", format!("changed to {new} with {supporters} votes while a rival has {c}")));
                    }
                }
            }
            if after.seq() <= before.seq() {
                violation = Some(mk("every change increases the record's sequence number", "vote:seq", format!("{} -> {}", before.seq(), after.seq())));
            }
            if !after.verify() {
                violation = Some(mk("every change keeps the record's signature valid", "vote:signature", "local record does not verify".into()));
            }
            if updates != vec![new] {
                violation = Some(mk("every change is announced as an event", "vote:event", format!("events {:?} for change to {new}", updates)));
            }
        } else if !updates.is_empty() {
            violation = Some(mk("every change is announced as an event (and only changes are)", "vote:spurious-event", format!("{:?}", updates)));
        }
        if after != before && !(changed4 || changed6) {
            violation = Some(mk("harness", "vote:other-change", "local record changed without an address change".into()));
        }
        if step >= seed_len {
            let c = mc::chain(prev, &format!("{:?}/{:?}/{}", after.udp4_socket(), after.udp6_socket(), after.seq()));
            chain.push(c);
            prev = Some(c);
        }
        if violation.is_some() {
            break;
        }
    }
    let now = std::time::Instant::now();
    let mut enabled = vec![];
    if violation.is_none() {
        for i in 0..nv {
            if !pings[i].is_empty() {
                for x in 0..cfg.addrs {
                    enabled.push(VEv::Pong(i as u8, if x == 2 && cfg.dual { 3 } else { x }));
                }
                if cfg.with_fail && !failed[i] {
                    enabled.push(VEv::Fail(i as u8));
                }
            }
        }
        enabled.push(VEv::PingRound);
        if cfg.autonat && hist.iter().filter(|e| matches!(e, VEv::Incoming)).count() < 2 {
            enabled.push(VEv::Incoming);
        }
        if !votes.is_empty() {
            enabled.push(VEv::Expire);
        }
    }
    let local = node.discv5.local_enr();
    let vote_view: Vec<(usize, u8, u64)> = {
        let mut v: Vec<_> = votes.iter().filter(|(_, (_, e))| *e > now).map(|(i, (x, e))| (i.0, *x, e.saturating_duration_since(now).as_secs() / 10)).collect();
        v.sort();
        v
    };
    let statuses: Vec<(NodeId, bool, bool)> = {
        let mut s: Vec<_> = node.discv5.table_entries().into_iter().map(|(id, _, st)| (id, st.is_connected(), st.is_incoming())).collect();
        s.sort_by_key(|x| x.0.raw());
        s
    };
    let fp = mc::fp_of(&(vote_view, pings.iter().map(|p| p.len().min(3)).collect::<Vec<_>>(), local.udp4_socket(), local.udp6_socket(), statuses, failed.clone()));
    Outcome { fp, enabled: enabled.into_iter().map(|e| (e, 0)).collect(), obs_chain: chain, violation, counters, terminal: Some(format!("{:?}", local.udp4_socket())), steps: hist.len() as u64 }
}

pub fn debug_c17() {
    let cfg = VCfg { dual: true, min: 2, voters: vec![0, 1, 0, 1], addrs: 3, with_fail: false, burst: false, slow_ping: false, seed: vec![], autonat: false, resub: false };
    let h = vec![VEv::Pong(0, 0), VEv::PingRound, VEv::Pong(1, 1), VEv::PingRound, VEv::Pong(1, 0), VEv::Pong(0, 1)];
    for n in 1..=h.len() {
        let o = rt::run(run_c17_async(&cfg, &h[..n]));
        eprintln!("{:?} -> terminal {:?} violation {:?}", &h[..n], o.terminal, o.violation.map(|v| v.detail));
    }
}

pub fn run_c17() {
    let mut rep = Report::new("C17", "model_checking");
    let thorough = rep.thorough();
    let mut cfgs = vec![
        VCfg { dual: false, min: 2, voters: vec![0, 0, 0, 0], addrs: 2, with_fail: false, burst: false, slow_ping: false, seed: vec![], autonat: false, resub: false },
        VCfg { dual: false, min: 3, voters: vec![0, 0, 0, 0, 0], addrs: 2, with_fail: false, burst: false, slow_ping: false, seed: vec![], autonat: false, resub: false },
        VCfg { dual: false, min: 2, voters: vec![0, 1, 2, 0], addrs: 2, with_fail: true, burst: false, slow_ping: false, seed: vec![], autonat: false, resub: false },
        VCfg { dual: true, min: 2, voters: vec![0, 1, 0, 1], addrs: 3, with_fail: false, burst: false, slow_ping: false, seed: vec![], autonat: false, resub: false },
    ];
    cfgs.push(VCfg { dual: false, min: 2, voters: vec![0, 0, 1], addrs: 2, with_fail: false, burst: true, slow_ping: false, seed: vec![], autonat: false, resub: false });
    cfgs.push(VCfg { dual: false, min: 2, voters: vec![0, 0, 0], addrs: 2, with_fail: false, burst: false, slow_ping: true, seed: vec![], autonat: false, resub: false });
    // dual stack with a minimum above 2 (a per-family halving of the minimum would show)
    cfgs.push(VCfg { dual: true, min: 3, voters: vec![0, 0, 0, 0], addrs: 2, with_fail: false, burst: false, slow_ping: false, seed: vec![], autonat: false, resub: false });
    // contested starting states: two addresses with 2:2 and 3:2 votes among five eligible voters
    cfgs.push(VCfg { dual: false, min: 2, voters: vec![0, 0, 0, 0, 0], addrs: 3, with_fail: false, burst: false, slow_ping: false, seed: vec![VEv::Pong(0, 0), VEv::Pong(1, 1), VEv::Pong(2, 0), VEv::Pong(3, 1)], autonat: false, resub: false });
    cfgs.push(VCfg { dual: false, min: 3, voters: vec![0, 0, 0, 0, 0], addrs: 3, with_fail: false, burst: false, slow_ping: false, seed: vec![VEv::Pong(0, 0), VEv::Pong(1, 1), VEv::Pong(2, 0), VEv::Pong(3, 1), VEv::Pong(4, 0), VEv::PingRound], autonat: false, resub: false });
    // connectivity test enabled (its waiting time is never reached): votes cast while it waits count,
    // also after two incoming sessions have completed it
    cfgs.push(VCfg { dual: false, min: 2, voters: vec![0, 0, 0, 0], addrs: 3, with_fail: false, burst: false, slow_ping: false, seed: vec![VEv::Pong(0, 0), VEv::Pong(1, 0), VEv::Pong(2, 1), VEv::Pong(3, 1), VEv::Incoming, VEv::Incoming], autonat: true, resub: false });
    cfgs.push(VCfg { dual: false, min: 2, voters: vec![0, 0, 0], addrs: 2, with_fail: false, burst: false, slow_ping: false, seed: vec![], autonat: true, resub: false });
    // the application re-subscribed to the event stream
    cfgs.push(VCfg { dual: false, min: 2, voters: vec![0, 0, 0], addrs: 2, with_fail: false, burst: false, slow_ping: false, seed: vec![], autonat: false, resub: true });
    if thorough {
        cfgs.push(VCfg { dual: false, min: 2, voters: vec![0, 0, 0, 0, 0], addrs: 3, with_fail: false, burst: false, slow_ping: false, seed: vec![], autonat: false, resub: false });
        cfgs.push(VCfg { dual: false, min: 3, voters: vec![0, 1, 2, 0, 1], addrs: 2, with_fail: true, burst: false, slow_ping: false, seed: vec![], autonat: false, resub: false });
        cfgs.push(VCfg { dual: true, min: 3, voters: vec![0, 0, 1, 1, 2], addrs: 3, with_fail: true, burst: false, slow_ping: false, seed: vec![], autonat: false, resub: false });
    }
    let depth = if thorough { 8 } else { 6 };
    let budget = mc::budget(thorough, 50.0, 1.0);
    let start = clock::wall();
    let (mut states, mut trans, mut execs) = (0u64, 0u64, 0u64);
    let mut counters: BTreeMap<&'static str, u64> = BTreeMap::new();
    let mut exhaustive = true;
    let mut caps = vec![];
    let mut found = vec![];
    let per = budget / cfgs.len() as f64;
    for cfg in &cfgs {
        let remaining = (budget - (clock::wall() - start)).min(per * 1.5);
        if remaining < 1.0 {
            exhaustive = false;
            caps.push("wall budget".to_string());
            break;
        }
        let d = if cfg.seed.is_empty() { depth } else { depth - 2 };
        let limits = Limits { max_budget: 0, max_depth: d, max_states: 2_000_000, wall_s: remaining };
        let mut vio = vec![];
        let mut samples = vec![];
        let stats = mc::explore(&limits, |h: &[VEv]| rt::run(run_c17_async(cfg, h)), |v, _| vio.push(v), |h, _| samples.push(format!("{:?}", h)));
        states += stats.states;
        trans += stats.transitions;
        execs += stats.executions;
        for (k, v) in stats.counters {
            *counters.entry(k).or_insert(0) += v;
        }
        if !stats.exhaustive {
            exhaustive = false;
            caps.push(format!("{:?}: {}", cfg, stats.cap.unwrap_or_default()));
        }
        if let Some(s) = samples.into_iter().last() {
            rep.sample(json!({"cfg":format!("{:?}",cfg),"history":s}));
        }
        found.extend(vio);
    }
    rep.set("states", states);
    rep.set("transitions", trans);
    rep.set("traces_validated_against_impl", execs);
    rep.set("evaluations", execs);
    rep.set("distinct_nontrivial", states);
    rep.set("depth_bound", depth as u64);
    rep.set("configurations", cfgs.len() as u64);
    rep.set("exhaustive", exhaustive);
    if !caps.is_empty() {
        rep.set("caps", json!(caps));
    }
    for (k, v) in &counters {
        rep.set(&format!("activations_{k}"), *v);
    }
    rep.set("rule", "explicit-state BFS over histories of {PONG(voter, address) answering a real service ping, request failure, ping interval passes, vote duration passes} on a real Discv5 with a scripted handler; reference = voter → (address, expiry); oracle evaluated on every step in which the local record's UDP address changes (minimum, clear-majority margin in all-eligible worlds, seq, signature, event)");
    rep.assume("which PONGs count (connected outgoing peers; others when votes are lacking in dual-stack mode) is implementation policy: the margin clause is only checked in worlds where every voter is eligible; all worlds check the minimum-voters clause, which is monotone in the voter set");
    for v in found {
        rep.violation(v);
    }
    if counters.get("address_changes").copied().unwrap_or(0) == 0 {
        rep.vacuous("C17 vacuous: the address never changed");
    }
    rep.finish();
}

/* ------------------------------------------------------------------------------------ */
/* C16, service level: the limits are in force for every listen mode when `ip_limit` is   */
/* configured (the table engine drives the table with the filters directly)               */
/* ------------------------------------------------------------------------------------ */

/// For the three listen modes: a real `Discv5` configured with `ip_limit()`; records of one /24
/// (each also carrying a distinct IPv6 endpoint, so that they are contactable in every mode) are
/// offered through `add_enr`: the third one of a bucket and the eleventh of the table must be
/// refused, and the table never holds more.
pub fn c16_service_level() -> (u64, Vec<Violation>) {
    let mut problems = vec![];
    let mut offered = 0u64;
    for mode in 0..3u8 {
        let r: Result<u64, Violation> = rt::run(async move {
            let listen = match mode {
                0 => ListenConfig::Ipv4 { ip: Ipv4Addr::new(10, 0, 0, 60), port: 9000 },
                1 => ListenConfig::Ipv6 { ip: "2001:db8::60".parse().unwrap(), port: 9000 },
                _ => ListenConfig::DualStack { ipv4: Ipv4Addr::new(10, 0, 0, 60), ipv4_port: 9000, ipv6: "2001:db8::60".parse().unwrap(), ipv6_port: 9000 },
            };
            let mut node = SNode::start(SNodeSpec { keyno: 60, listen, enr: None }, |b| { b.ip_limit(); }, false).await;
            let pool = key_pool(&node.id, 4000, 400);
            let mk = |k: u16| -> Enr {
                let key = util::key(k);
                util::enr(&key, &util::EnrSpec { seq: 1, ip4: Some((Ipv4Addr::new(10, 77, 0, (k % 250) as u8 + 1), 9000)), ip6: Some((std::net::Ipv6Addr::new(0x2001, 0xdb8, 0, 0, 0, 0, 1, k), 9000)), pad: 0 })
            };
            // second family of records (IPv6 and dual-stack modes): an IPv4 address without an IPv4 UDP
            // port (reachable over IPv6 only) still counts towards its /24
            let mk_noudp4 = |k: u16| -> Enr {
                let key = util::key(k);
                let mut b = Enr::builder();
                b.seq(1);
                b.ip4(Ipv4Addr::new(10, 78, 0, (k % 250) as u8 + 1));
                b.ip6(std::net::Ipv6Addr::new(0x2001, 0xdb8, 0, 0, 0, 0, 2, k));
                b.udp6(9000);
                b.build(&key).expect("record")
            };
            if mode != 0 {
                if let Some(ks) = pool.by_distance.get(&255) {
                    for (j, k) in ks.iter().skip(2).take(3).enumerate() {
                        let _ = node.discv5.add_enr(mk_noudp4(*k));
                        let same: usize = node.discv5.table_entries().iter().filter(|(id, e, _)| util::log2_distance(&node.id, id) == 255 && e.ip4().map(|i| i.octets()[..3] == [10, 78, 0]).unwrap_or(false)).count();
                        if same > 2 {
                            let name = ["Ipv4", "Ipv6", "DualStack"][mode as usize];
                            return Err(Violation { clause: "a bucket never holds more than 2 nodes sharing a /24".into(), key: format!("service:bucket-limit:no-udp4:{name}"), detail: format!("listen mode {name} with ip_limit: bucket 255 holds {same} nodes of 10.78.0.0/24 (records with an IPv4 address but no IPv4 UDP port) after {} add_enr calls", j + 1), replay: json!({"engine":"ssim","check":"C16","listen_mode":name}) });
                        }
                    }
                }
            }
            let mut n = 0u64;
            // three of one bucket, then further buckets up to 12 records of the /24
            let mut order: Vec<u16> = vec![];
            if let Some(ks) = pool.by_distance.get(&256) {
                order.extend(ks.iter().take(3));
            }
            for d in [255u64, 254, 253, 252] {
                if let Some(ks) = pool.by_distance.get(&d) {
                    order.extend(ks.iter().take(2));
                }
            }
            if let Some(ks) = pool.by_distance.get(&256) {
                order.extend(ks.iter().skip(3).take(3));
            }
            for k in order {
                let _ = node.discv5.add_enr(mk(k));
                n += 1;
                let entries = node.discv5.table_entries();
                let mut per_bucket: BTreeMap<u64, usize> = BTreeMap::new();
                let mut total = 0usize;
                for (id, e, _) in &entries {
                    if e.ip4().map(|i| i.octets()[..3] == [10, 77, 0]).unwrap_or(false) {
                        total += 1;
                        *per_bucket.entry(util::log2_distance(&node.id, id)).or_insert(0) += 1;
                    }
                }
                let name = ["Ipv4", "Ipv6", "DualStack"][mode as usize];
                if let Some((b, c)) = per_bucket.iter().find(|(_, c)| **c > 2) {
                    return Err(Violation { clause: "a bucket never holds more than 2 nodes sharing a /24".into(), key: format!("service:bucket-limit:{name}"), detail: format!("listen mode {name} with ip_limit: bucket {b} holds {c} nodes of 10.77.0.0/24 after {n} add_enr calls"), replay: json!({"engine":"ssim","check":"C16","listen_mode":name}) });
                }
                if total > 10 {
                    return Err(Violation { clause: "the table never holds more than 10 nodes sharing a /24".into(), key: format!("service:table-limit:{name}"), detail: format!("listen mode {name} with ip_limit: {total} nodes of 10.77.0.0/24 after {n} add_enr calls"), replay: json!({"engine":"ssim","check":"C16","listen_mode":name}) });
                }
            }
            // a node the service holds a session with is re-added by the user with a newer record
            // that moves it into the saturated /24
            if let Some(k) = pool.by_distance.get(&256).and_then(|ks| ks.iter().nth(7).copied()) {
                let key = util::key(k);
                let first = util::enr(&key, &util::EnrSpec { seq: 1, ip4: Some((Ipv4Addr::new(10, 79, 0, 9), 9000)), ip6: Some((std::net::Ipv6Addr::new(0x2001, 0xdb8, 0, 0, 0, 0, 3, k), 9000)), pad: 0 });
                let addr: SocketAddr = if mode == 1 { first.udp6_socket().unwrap().into() } else { first.udp4_socket().unwrap().into() };
                node.inject(HandlerOut::Established(first.clone(), addr, v::ConnectionDirection::Outgoing)).await;
                let moved = util::enr(&key, &util::EnrSpec { seq: 2, ip4: Some((Ipv4Addr::new(10, 77, 0, 251), 9000)), ip6: Some((std::net::Ipv6Addr::new(0x2001, 0xdb8, 0, 0, 0, 0, 3, k), 9000)), pad: 0 });
                let _ = node.discv5.add_enr(moved);
                n += 1;
                let name = ["Ipv4", "Ipv6", "DualStack"][mode as usize];
                let entries = node.discv5.table_entries();
                let total = entries.iter().filter(|(_, e, _)| e.ip4().map(|i| i.octets()[..3] == [10, 77, 0]).unwrap_or(false)).count();
                let in_bucket = entries.iter().filter(|(id, e, _)| util::log2_distance(&node.id, id) == 256 && e.ip4().map(|i| i.octets()[..3] == [10, 77, 0]).unwrap_or(false)).count();
                if total > 10 || in_bucket > 2 {
                    return Err(Violation { clause: "limits hold for inserts, record updates and status changes alike".into(), key: format!("service:limit-after-readd:{name}"), detail: format!("listen mode {name} with ip_limit: after add_enr of a newer record of a connected node the table holds {total} nodes of 10.77.0.0/24 ({in_bucket} in bucket 256)"), replay: json!({"engine":"ssim","check":"C16","listen_mode":name}) });
                }
            }
            if n < 12 {
                return Err(Violation { clause: "harness".into(), key: "service:too-few-keys".into(), detail: format!("only {n} records offered"), replay: json!(null) });
            }
            Ok(n)
        });
        match r {
            Ok(n) => offered += n,
            Err(v) => problems.push(v),
        }
    }
    (offered, problems)
}

/* ------------------------------------------------------------------------------------ */
/* C15, service level: the configured session timeout / capacity reach the handler        */
/* ------------------------------------------------------------------------------------ */

/// A real `Discv5` built through the public constructor with every combination of session timeout
/// {1 s, 100 s, 1 day}, session cache capacity {1, 1000}, ping interval {10 s, 300 s} and request
/// timeout {1 s, 4 s}: the handler it starts is configured with exactly these values.
pub fn c15_service_level() -> (u64, Vec<Violation>) {
    let mut problems = vec![];
    let mut cases = 0u64;
    for st in [1u64, 100, 86_400] {
        for cap in [1usize, 1000] {
            for ping in [10u64, 300] {
                for rt_s in [1u64, 4] {
                    cases += 1;
                    let got = rt::run(async move {
                        let listen = ListenConfig::Ipv4 { ip: Ipv4Addr::new(10, 0, 0, 62), port: 9000 };
                        let _node = SNode::start(SNodeSpec { keyno: 62, listen, enr: None }, |b| {
                            b.session_timeout(std::time::Duration::from_secs(st));
                            b.session_cache_capacity(cap);
                            b.ping_interval(std::time::Duration::from_secs(ping));
                            b.request_timeout(std::time::Duration::from_secs(rt_s));
                        }, false).await;
                        v::scripted_handler_config()
                    });
                    match got {
                        Some((t, c, r, _)) if t == std::time::Duration::from_secs(st) && c == cap && r == std::time::Duration::from_secs(rt_s) => {}
                        other => problems.push(Violation { clause: "a session unused for longer than the configured session timeout is never used again; the cache never holds more sessions than configured".into(), key: "service:session-config".into(), detail: format!("Discv5 configured with session_timeout {st} s, session_cache_capacity {cap}, ping_interval {ping} s, request_timeout {rt_s} s started its handler with (session timeout, capacity, request timeout, retries) = {:?}", other), replay: json!({"engine":"ssim","check":"C15","session_timeout_s":st,"capacity":cap,"ping_interval_s":ping}) }),
                    }
                }
            }
        }
    }
    (cases, problems)
}

/* ------------------------------------------------------------------------------------ */
/* C07, service level: the configured incoming limit reaches the routing table            */
/* ------------------------------------------------------------------------------------ */

/// A real `Discv5` configured with `incoming_bucket_limit(L)`, L ∈ {0, 1, 3, 16}: six peers of one
/// bucket establish incoming sessions (then two outgoing ones): connected incoming entries of a
/// bucket never exceed L.
pub fn c07_service_level() -> (u64, Vec<Violation>) {
    let mut problems = vec![];
    let mut reports = 0u64;
    for limit in [0usize, 1, 3, 16] {
        let r: Result<u64, Violation> = rt::run(async move {
            let listen = ListenConfig::Ipv4 { ip: Ipv4Addr::new(10, 0, 0, 61), port: 9000 };
            let mut node = SNode::start(SNodeSpec { keyno: 61, listen, enr: None }, |b| { b.incoming_bucket_limit(limit); }, false).await;
            let pool = key_pool(&node.id, 4500, 300);
            let keys: Vec<u16> = pool.by_distance.get(&256).map(|v| v.iter().take(8).copied().collect()).unwrap_or_default();
            if keys.len() < 8 {
                return Err(Violation { clause: "harness".into(), key: "service:too-few-keys".into(), detail: "bucket 256".into(), replay: json!(null) });
            }
            let mut n = 0u64;
            for (j, k) in keys.iter().enumerate() {
                let enr = record(*k, 1, false, 5);
                let addr: SocketAddr = enr.udp4_socket().unwrap().into();
                let dir = if j < 6 { v::ConnectionDirection::Incoming } else { v::ConnectionDirection::Outgoing };
                node.inject(HandlerOut::Established(enr, addr, dir)).await;
                n += 1;
                let entries = node.discv5.table_entries();
                let mut per_bucket: BTreeMap<u64, usize> = BTreeMap::new();
                for (id, _, st) in &entries {
                    if st.is_connected() && st.is_incoming() {
                        *per_bucket.entry(util::log2_distance(&node.id, id)).or_insert(0) += 1;
                    }
                }
                if let Some((b, c)) = per_bucket.iter().find(|(_, c)| **c > limit) {
                    return Err(Violation { clause: "connected incoming nodes never exceed the configured per-bucket limit".into(), key: format!("service:incoming-limit:{limit}"), detail: format!("incoming_bucket_limit({limit}): bucket {b} holds {c} connected incoming nodes after {n} session reports"), replay: json!({"engine":"ssim","check":"C07","limit":limit}) });
                }
            }
            let _ = node.drain_handler_in();
            Ok(n)
        });
        match r {
            Ok(n) => reports += n,
            Err(v) => problems.push(v),
        }
    }
    (reports, problems)
}

/* ------------------------------------------------------------------------------------ */
/* C01, service level: an unauthenticated packet that merely *claims* X's id makes the     */
/* handler ask the service for X's record — that query changes nothing about X            */
/* ------------------------------------------------------------------------------------ */

pub fn c01_service_level() -> (u64, Vec<Violation>) {
    let mut problems = vec![];
    let mut queries = 0u64;
    for state in 0..3u8 {
        for foreign_src in [false, true] {
            let r: Result<(), Violation> = rt::run(async move {
                let listen = ListenConfig::Ipv4 { ip: Ipv4Addr::new(10, 0, 0, 62), port: 9000 };
                let mut node = SNode::start(SNodeSpec { keyno: 62, listen, enr: None }, |_| {}, true).await;
                let x = record(63, 3, false, 6);
                let x_addr: SocketAddr = x.udp4_socket().unwrap().into();
                match state {
                    0 => node.inject(HandlerOut::Established(x.clone(), x_addr, v::ConnectionDirection::Outgoing)).await,
                    1 => node.inject(HandlerOut::Established(x.clone(), x_addr, v::ConnectionDirection::Incoming)).await,
                    _ => node.discv5.add_enr(x.clone()).expect("add"),
                }
                let _ = node.drain_handler_in();
                let _ = node.drain_events();
                let before: Vec<(NodeId, Enr, bool, bool)> = node.discv5.table_entries().into_iter().map(|(i, e, s)| (i, e, s.is_connected(), s.is_incoming())).collect();
                let src = if foreign_src { util::v4(203, 0, 113, 9, 4444) } else { x_addr };
                let way = v::who_are_you_ref(NodeAddress { socket_addr: src, node_id: x.node_id() }, [7u8; 12]);
                node.inject(HandlerOut::WhoAreYou(way)).await;
                rt::settle().await;
                let after: Vec<(NodeId, Enr, bool, bool)> = node.discv5.table_entries().into_iter().map(|(i, e, s)| (i, e, s.is_connected(), s.is_incoming())).collect();
                let answered = node.drain_handler_in().into_iter().any(|h| matches!(h, HandlerIn::WhoAreYou(_, Some(e)) if e == x));
                let replay = json!({"engine":"ssim","check":"C01","table_state":state,"foreign_source":foreign_src});
                if before != after {
                    return Err(Violation { clause: "X's routing-table entry changes only if the party proved to be X".into(), key: "service:whoareyou-query-changes-table".into(), detail: format!("a who-are-you query for X (packet from {src}) changed X's entry: {:?} -> {:?}", before.iter().map(|b| (b.2, b.3)).collect::<Vec<_>>(), after.iter().map(|b| (b.2, b.3)).collect::<Vec<_>>()), replay });
                }
                if !answered {
                    return Err(Violation { clause: "harness".into(), key: "service:whoareyou-query-unanswered".into(), detail: "the service did not answer the query with X's known record".into(), replay });
                }
                if !node.drain_events().is_empty() {
                    return Err(Violation { clause: "X is reported only if the party proved to be X".into(), key: "service:whoareyou-query-event".into(), detail: "an event was emitted for a mere who-are-you query".into(), replay: json!(null) });
                }
                Ok(())
            });
            queries += 1;
            if let Err(v) = r {
                problems.push(v);
            }
        }
    }
    (queries, problems)
}

/* ------------------------------------------------------------------------------------ */
/* C08, service level: the public lookup by distances (`Discv5::nodes_by_distance`)       */
/* ------------------------------------------------------------------------------------ */

/// A real `Discv5` whose three highest buckets hold 16 / 5 / 2 entries: for distance lists with
/// duplicates (adjacent and not), unsorted, with 0 and with out-of-range values the call returns the
/// local record iff 0 is listed, then exactly the entries at the distinct listed distances in
/// 1..=256, each once, up to the configured cap.
pub fn c08_service_level() -> (u64, Vec<Violation>) {
    let mut problems = vec![];
    let mut calls = 0u64;
    for cap in [16usize, 4] {
        let r: Result<u64, Violation> = rt::run(async move {
            let listen = ListenConfig::Ipv4 { ip: Ipv4Addr::new(10, 0, 0, 64), port: 9000 };
            let node = SNode::start(SNodeSpec { keyno: 64, listen, enr: None }, |b| { b.max_nodes_response(cap); }, false).await;
            let pool = key_pool(&node.id, 5000, 500);
            for (d, n) in [(256u64, 16usize), (255, 5), (254, 2)] {
                for k in pool.by_distance.get(&d).map(|v| v.iter().take(n).copied().collect::<Vec<_>>()).unwrap_or_default() {
                    let _ = node.discv5.add_enr(record(k, 1, false, 8));
                }
            }
            let table: Vec<(NodeId, Enr)> = node.discv5.table_entries().into_iter().map(|(i, e, _)| (i, e)).collect();
            let lists: Vec<Vec<u64>> = vec![
                vec![256], vec![255, 256], vec![256, 255, 256], vec![256, 256], vec![254, 256, 254, 255, 256], vec![0], vec![0, 256, 0], vec![256, 0, 255],
                vec![257], vec![300, 256], vec![], vec![7], vec![255, 254], vec![254, 255, 254],
            ];
            let mut n = 0u64;
            for list in &lists {
                n += 1;
                let got = node.discv5.nodes_by_distance(list.clone());
                let replay = json!({"engine":"ssim","check":"C08","cap":cap,"distances":list});
                let want_local = list.contains(&0);
                let local = node.discv5.local_enr();
                let has_local = got.iter().filter(|e| e.node_id() == local.node_id()).count();
                if has_local != want_local as usize {
                    return Err(Violation { clause: "a lookup by distances returns only nodes at those distances".into(), key: "service:by-distance:local".into(), detail: format!("distances {:?}: local record returned {has_local} times", list), replay });
                }
                let others: Vec<&Enr> = got.iter().filter(|e| e.node_id() != local.node_id()).collect();
                let mut ids: Vec<[u8; 32]> = others.iter().map(|e| e.node_id().raw()).collect();
                ids.sort();
                let before = ids.len();
                ids.dedup();
                if ids.len() != before {
                    return Err(Violation { clause: "a lookup by distances yields every matching node once".into(), key: "service:by-distance:duplicate".into(), detail: format!("distances {:?}: {} records, {} distinct", list, before, ids.len()), replay });
                }
                let wanted: Vec<&(NodeId, Enr)> = table.iter().filter(|(i, _)| list.contains(&util::log2_distance(&node.id, i))).collect();
                for e in &others {
                    if !wanted.iter().any(|(i, _)| *i == e.node_id()) {
                        return Err(Violation { clause: "a lookup by distances returns only nodes at those distances".into(), key: "service:by-distance:foreign".into(), detail: format!("distances {:?}: a node at distance {} returned", list, util::log2_distance(&node.id, &e.node_id())), replay });
                    }
                }
                if others.len() != wanted.len().min(cap) {
                    return Err(Violation { clause: "a lookup by distances returns all nodes at those distances up to the cap".into(), key: "service:by-distance:count".into(), detail: format!("distances {:?}: {} returned, {} stored there, cap {cap}", list, others.len(), wanted.len()), replay });
                }
            }
            Ok(n)
        });
        match r {
            Ok(n) => calls += n,
            Err(v) => problems.push(v),
        }
    }
    (calls, problems)
}

/// C16, service level, second world: the record of a candidate waiting in the *pending* slot of a
/// full bucket is refreshed by a NODES answer that moves it into a /24 which already has its 10
/// table members; after the pending timeout the table must still hold at most 10 of that /24.
pub fn c16_service_pending() -> (u64, Vec<Violation>) {
    let r: Result<u64, Violation> = rt::run(async move {
        let listen = ListenConfig::Ipv4 { ip: Ipv4Addr::new(10, 0, 0, 65), port: 9000 };
        let mut node = SNode::start(SNodeSpec { keyno: 65, listen, enr: None }, |b| { b.ip_limit(); }, false).await;
        let pool = key_pool(&node.id, 6000, 1500);
        let rec = |k: u16, subnet: u8, host: u8, seq: u64| -> Enr { util::enr(&util::key(k), &util::EnrSpec { seq, ip4: Some((Ipv4Addr::new(10, 90, subnet, host), 9000)), ..Default::default() }) };
        let harness_err = |m: &str| Violation { clause: "harness".into(), key: "service:pending-world".into(), detail: m.into(), replay: json!(null) };
        // ten members of subnet 1 in five other buckets
        let mut host = 1u8;
        for d in [255u64, 254, 253, 252, 251] {
            let ks = pool.by_distance.get(&d).cloned().unwrap_or_default();
            if ks.len() < 2 {
                return Err(harness_err("too few keys at a low distance"));
            }
            for k in ks.iter().take(2) {
                node.discv5.add_enr(rec(*k, 1, host, 1)).map_err(|_| harness_err("add_enr of a subnet member refused"))?;
                host += 1;
            }
        }
        // bucket 256 full of other subnets (disconnected entries), then a connected candidate of
        // yet another subnet: it waits in the pending slot
        let ks = pool.by_distance.get(&256).cloned().unwrap_or_default();
        if ks.len() < 18 {
            return Err(harness_err("too few keys at distance 256"));
        }
        for (j, k) in ks.iter().take(16).enumerate() {
            node.discv5.add_enr(rec(*k, 20 + j as u8, 1, 1)).map_err(|_| harness_err("add_enr into bucket 256 refused"))?;
        }
        let c = ks[16];
        let c_rec = rec(c, 60, 1, 1);
        node.inject(HandlerOut::Established(c_rec.clone(), c_rec.udp4_socket().unwrap().into(), v::ConnectionDirection::Outgoing)).await;
        let _ = node.drain_handler_in();
        let in_table = node.discv5.table_entries().iter().any(|(id, _, _)| *id == c_rec.node_id());
        if in_table {
            return Err(harness_err("the candidate entered the full bucket at once"));
        }
        // a lookup for the candidate's own id: every contacted peer is asked for the candidate's distance
        let lookup = tokio::spawn(node.discv5.find_node(c_rec.node_id()));
        for _ in 0..3 {
            node.inject(HandlerOut::ExpiredSessions(vec![])).await;
        }
        rt::settle().await;
        let mut answered = 0u64;
        for hin in node.drain_handler_in() {
            if let HandlerIn::Request(contact, req) = hin {
                if let v::RequestBody::FindNode { distances } = &req.body {
                    let d = util::log2_distance(&contact.node_id(), &c_rec.node_id());
                    if distances.contains(&d) && answered == 0 {
                        // the candidate moved into the saturated /24 (newer record)
                        let newer = rec(c, 1, 200, 2);
                        let from = NodeAddress { socket_addr: contact.socket_addr(), node_id: contact.node_id() };
                        node.inject(HandlerOut::Response(from, Box::new(v::Response { id: req.id.clone(), body: v::ResponseBody::Nodes { total: 1, nodes: vec![newer] } }))).await;
                        answered += 1;
                    }
                }
            }
        }
        if answered == 0 {
            lookup.abort();
            return Err(harness_err("no request asked for the candidate's distance"));
        }
        // the pending timeout elapses; any table access applies the pending candidate
        clock::advance(std::time::Duration::from_secs(61));
        for _ in 0..3 {
            node.inject(HandlerOut::ExpiredSessions(vec![])).await;
        }
        let entries = node.discv5.table_entries();
        lookup.abort();
        let members = entries.iter().filter(|(_, e, _)| e.ip4().map(|i| i.octets()[..3] == [10, 90, 1]).unwrap_or(false)).count();
        if members > 10 {
            return Err(Violation { clause: "the table never holds more than 10 nodes sharing a /24".into(), key: "service:table-limit:pending-record-refreshed".into(), detail: format!("{members} nodes of 10.90.1.0/24 after a pending candidate's record was moved into that subnet by a NODES answer and then promoted"), replay: json!({"engine":"ssim","check":"C16","world":"pending-refresh"}) });
        }
        Ok(answered)
    });
    match r {
        Ok(n) => (n, vec![]),
        Err(v) => (0, vec![v]),
    }
}

/* ------------------------------------------------------------------------------------ */
/* C12, service level: the IP mode of a node built from caller-supplied sockets           */
/* ------------------------------------------------------------------------------------ */

/// `ListenConfig::FromSockets` with an IPv4 socket only / an IPv6 socket only / both: a record is
/// admitted by `add_enr` iff it is contactable over a family the node owns a socket for. Real
/// loopback sockets are bound for this (they are never used: the handler is scripted); where the
/// sandbox has no IPv6 loopback the IPv6 cases are skipped and counted.
pub fn c12_from_sockets() -> (u64, u64, Vec<Violation>) {
    let mut problems = vec![];
    let (mut cases, mut skipped) = (0u64, 0u64);
    for (use4, use6) in [(true, false), (false, true), (true, true)] {
        let r: Result<bool, Violation> = rt::run(async move {
            let s4 = if use4 { tokio::net::UdpSocket::bind("127.0.0.1:0").await.ok().map(std::sync::Arc::new) } else { None };
            let s6 = if use6 { tokio::net::UdpSocket::bind("[::1]:0").await.ok().map(std::sync::Arc::new) } else { None };
            if (use4 && s4.is_none()) || (use6 && s6.is_none()) {
                return Ok(false);
            }
            let listen = ListenConfig::FromSockets { ipv4: s4, ipv6: s6 };
            let own = util::enr(&util::key(66), &util::EnrSpec { seq: 1, ip4: if use4 { Some((Ipv4Addr::LOCALHOST, 9000)) } else { None }, ip6: if use6 { Some((std::net::Ipv6Addr::LOCALHOST, 9000)) } else { None }, pad: 0 });
            let node = SNode::start(SNodeSpec { keyno: 66, listen, enr: Some(own) }, |_| {}, false).await;
            let v4only = util::enr(&util::key(67), &util::EnrSpec { seq: 1, ip4: Some((Ipv4Addr::new(10, 1, 1, 1), 9000)), ..Default::default() });
            let v6only = util::enr(&util::key(68), &util::EnrSpec { seq: 1, ip6: Some(("2001:db8::68".parse().unwrap(), 9000)), ..Default::default() });
            for (name, rec, reachable) in [("IPv4-only", v4only, use4), ("IPv6-only", v6only, use6)] {
                let _ = node.discv5.add_enr(rec.clone());
                let stored = node.discv5.table_entries().iter().any(|(id, _, _)| *id == rec.node_id());
                if stored != reachable {
                    return Err(Violation { clause: "every entry is contactable in the node's IP mode".into(), key: format!("service:from-sockets:{}{}", if use4 { "4" } else { "" }, if use6 { "6" } else { "" }), detail: format!("node built from sockets (ipv4: {use4}, ipv6: {use6}): an {name} record is {} the routing table", if stored { "in" } else { "refused by" }), replay: json!({"engine":"ssim","check":"C12","from_sockets":[use4,use6]}) });
                }
            }
            Ok(true)
        });
        match r {
            Ok(true) => cases += 1,
            Ok(false) => skipped += 1,
            Err(v) => problems.push(v),
        }
    }
    (cases, skipped, problems)
}
