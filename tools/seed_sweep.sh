#!/bin/bash
# Re-runs the quick checks named in seeded/<id>/meta.json (our_checks.caught_by) against every
# stored seeded change and records whether each is still reported.
#   tools/seed_sweep.sh [lanes] [id-glob]
# Each lane works on a private copy of /repo that is bind-mounted over /repo inside its own mount
# namespace (the harness depends on discv5 by the path /repo), so /repo itself is never touched and
# lanes do not interfere. Scratch copies and build output live under /tmp and are removed at the end.
set -u
LANES=${1:-4}
GLOB=${2:-*}
cd /verif
# the lanes run a snapshot of /verif taken now, so that /verif may be edited while they work
SNAP=/tmp/sweep-verif
rsync -a --delete --exclude target --exclude .git --exclude evidence --exclude replays /verif/ $SNAP/
# (the glob argument may hold several patterns separated by blanks)
ids=$(cd seeded && ls -d $GLOB 2>/dev/null | grep -v SWEEP | sort)
mkdir -p /tmp/sweep-results
rm -f /tmp/sweep-results/*
lane() {
  L=$1; shift
  COPY=/tmp/sweep-repo-$L; OUT=/tmp/sweep-out-$L
  mkdir -p $OUT
  for id in "$@"; do
    checks=$(python3 -c "import json;print(' '.join(json.load(open('/verif/seeded/$id/meta.json'))['our_checks']['caught_by']))")
    rsync -a --delete --exclude target --exclude .git /repo/ $COPY/
    (cd $COPY && git apply /verif/seeded/$id/patch.diff) || { echo "$id PATCH-FAILED" > /tmp/sweep-results/$id; continue; }
    res=""
    for c in $checks; do
      out=$(unshare -m bash -c "mount --bind $COPY /repo && cd $SNAP && VERIF_OUT=$OUT ./check $c quick" 2>&1)
      code=$?
      key=$(echo "$out" | grep -m1 "key:" | sed 's/^ *key: //')
      res="$res $c:exit$code:$key"
    done
    echo "$id$res" > /tmp/sweep-results/$id
    echo "$id$res"
  done
  rm -rf $COPY $OUT
}
i=0
declare -a buckets
for id in $ids; do
  buckets[$((i % LANES))]="${buckets[$((i % LANES))]:-} $id"
  i=$((i + 1))
done
for L in $(seq 0 $((LANES - 1))); do
  lane $L ${buckets[$L]:-} &
done
wait
# clean tree in the same setting: every check must be silent
echo "== summary"
cat /tmp/sweep-results/* | sort > /tmp/sweep-summary.txt
cat /tmp/sweep-summary.txt
missed=$(grep -c "exit0" /tmp/sweep-summary.txt || true)
echo "seeds=$(wc -l < /tmp/sweep-summary.txt) with-a-silent-check=$missed"
rm -rf $SNAP
