//! C11: NODES responses validated; honest peers never banned (engine `ssim`).
use crate::mc::{self, Report, Violation};
use crate::rt;
use crate::snode::{SNode, SNodeSpec};
use crate::ssim::{key_pool, record};
use crate::util;
use discv5::enr::NodeId;
use discv5::verif::{self as v, HandlerIn, HandlerOut};
use discv5::{Enr, Event, ListenConfig, NodeAddress};
use serde_json::{json, Value};
use std::collections::{BTreeSet, HashSet};
use std::net::Ipv4Addr;

const REQUESTER: u16 = 70;
const RESPONDER: u16 = 71;

fn listen(k: u16) -> ListenConfig {
    ListenConfig::Ipv4 { ip: Ipv4Addr::new(10, 0, 0, k as u8), port: 9000 }
}

fn vio(clause: &str, key: &str, detail: String, replay: Value) -> Violation {
    Violation { clause: clause.into(), key: key.into(), detail, replay }
}

/// A lookup target at log2 distance `d` from `peer` (d = 0: the peer itself).
fn target_at(peer: &NodeId, d: u64) -> NodeId {
    let mut raw = peer.raw();
    if d == 0 {
        return *peer;
    }
    let bit = (d - 1) as usize;
    raw[31 - bit / 8] ^= 1 << (bit % 8);
    if d >= 2 {
        raw[31] ^= 1; // odd pattern below the leading bit
    }
    NodeId::new(&raw)
}

fn dist_from(peer: &NodeId, e: &Enr) -> u64 {
    util::log2_distance(peer, &e.node_id())
}

struct Requester {
    node: SNode,
    peer: (Enr, NodeAddress),
    lookup: Option<tokio::task::JoinHandle<Result<Vec<Enr>, discv5::QueryError>>>,
}

/// Starts S1 with `peer` as its only table entry, starts a lookup for `target` and returns the
/// FINDNODE request S1 emits towards the peer.
async fn start_lookup(peer_enr: Enr, target: NodeId) -> (Requester, v::RequestId, Vec<u64>) {
    start_lookup_with(peer_enr, target, false).await
}

/// `ip_prebanned`: the responder's IP address is already on the ban list (an earlier offender behind
/// the same address); answers to requests in flight still get through (expected responses pass the
/// packet filter before the ban list is consulted).
async fn start_lookup_with(peer_enr: Enr, target: NodeId, ip_prebanned: bool) -> (Requester, v::RequestId, Vec<u64>) {
    let ip = std::net::IpAddr::V4(*peer_enr.udp4_socket().unwrap().ip());
    let mut node = SNode::start(
        SNodeSpec { keyno: REQUESTER, listen: listen(REQUESTER), enr: None },
        |b| {
            if ip_prebanned {
                let mut l = discv5::PermitBanList::default();
                l.ban_ips.insert(ip, Some(std::time::Instant::now() + std::time::Duration::from_secs(60)));
                b.permit_ban_list(l);
            }
        },
        true,
    )
    .await;
    let addr = NodeAddress { socket_addr: peer_enr.udp4_socket().unwrap().into(), node_id: peer_enr.node_id() };
    node.inject(HandlerOut::Established(peer_enr.clone(), addr.socket_addr, v::ConnectionDirection::Outgoing)).await;
    let _ = node.drain_handler_in(); // the service's own PING to the new peer stays unanswered
    let _ = node.drain_events();
    let h = tokio::spawn(node.discv5.find_node(target));
    rt::settle().await;
    let mut found = None;
    for hin in node.drain_handler_in() {
        if let HandlerIn::Request(contact, req) = hin {
            if let v::RequestBody::FindNode { distances } = &req.body {
                if contact.node_id() == addr.node_id {
                    found = Some((req.id.clone(), distances.clone()));
                }
            }
        }
    }
    let (id, distances) = found.unwrap_or_else(|| mc::machinery("lookup emitted no FINDNODE request"));
    (Requester { node, peer: (peer_enr, addr), lookup: Some(h) }, id, distances)
}

fn discovered(events: Vec<Event>) -> Vec<Enr> {
    events.into_iter().filter_map(|e| if let Event::Discovered(enr) = e { Some(enr) } else { None }).collect()
}

fn banned(addr: &NodeAddress) -> bool {
    let l = v::ban_list_snapshot();
    l.ban_nodes.contains_key(&addr.node_id) || l.ban_ips.contains_key(&addr.socket_addr.ip())
}

/// "The responder is banned": the responder is a node, i.e. its id — a ban that only covers the
/// address it currently uses ends when that address is unblocked or the node moves.
fn node_banned(addr: &NodeAddress) -> bool {
    v::ban_list_snapshot().ban_nodes.contains_key(&addr.node_id)
}

/* ------------------------------------------------------------------------------------ */
/* World A: the responder is this implementation itself                                  */
/* ------------------------------------------------------------------------------------ */

async fn honest(d: u64, kind: u8) -> Result<Value, Violation> {
    let resp_id = util::node_id(&util::key(RESPONDER));
    let resp_enr = record(RESPONDER, 1, kind == 2, 0);
    let target = target_at(&resp_id, d);
    let (mut s1, req_id, distances) = start_lookup(resp_enr.clone(), target).await;
    let replay = json!({"engine":"ssim","check":"C11","world":"honest","distance_class":d,"responder_table":kind,"request":distances});
    // the request list is what the lookup code prescribes
    let expect = v::findnode_log2distance(target, resp_id, 3).unwrap_or_else(|| vec![0]);
    if distances != expect {
        return Err(vio("harness", "c11:request-list", format!("{:?} vs {:?}", distances, expect), replay));
    }
    // the responder: a second real service
    let listen2 = ListenConfig::Ipv4 { ip: *resp_enr.udp4_socket().unwrap().ip(), port: 9000 };
    let mut s2 = SNode::start(SNodeSpec { keyno: RESPONDER, listen: listen2, enr: Some(resp_enr.clone()) }, |_| {}, false).await;
    let pool = key_pool(&resp_id, 3000, 700);
    let mut stored = 0;
    if kind > 0 {
        for dd in &distances {
            if let Some(ks) = pool.by_distance.get(dd) {
                let n = if kind == 2 { 16 } else { 3 };
                for k in ks.iter().take(n) {
                    if s2.discv5.add_enr(record(*k, 1, kind == 2, 3)).is_ok() {
                        stored += 1;
                    }
                }
            }
        }
        // the requester itself is known to the responder
        let _ = s2.discv5.add_enr(s1.node.discv5.local_enr());
    }
    let from = NodeAddress { socket_addr: s1.node.addr, node_id: s1.node.id };
    s2.inject(HandlerOut::Request(from.clone(), Box::new(v::Request { id: req_id.clone(), body: v::RequestBody::FindNode { distances: distances.clone() } }))).await;
    let mut relayed: Vec<Enr> = vec![];
    let mut packets = 0;
    for hin in s2.drain_handler_in() {
        if let HandlerIn::Response(to, resp) = hin {
            if to != from {
                return Err(vio("harness", "c11:relay", "response to someone else".into(), replay));
            }
            if let v::ResponseBody::Nodes { nodes, .. } = &resp.body {
                relayed.extend(nodes.iter().cloned());
            }
            packets += 1;
            s1.node.inject(HandlerOut::Response(s1.peer.1.clone(), resp)).await;
        }
    }
    if packets == 0 {
        return Err(vio("harness", "c11:no-answer", "responder did not answer".into(), replay));
    }
    if banned(&s1.peer.1) {
        return Err(vio("a responder that answers as the protocol (and this implementation itself) prescribes is never banned", "nodes:honest-banned", format!("request {:?}: honest responder banned after returning {} records in {} packets", distances, relayed.len(), packets), replay));
    }
    let got: HashSet<NodeId> = discovered(s1.node.drain_events()).iter().map(|e| e.node_id()).collect();
    let want: HashSet<NodeId> = relayed.iter().map(|e| e.node_id()).filter(|id| *id != s1.node.id).collect();
    if got != want {
        return Err(vio("records at a requested distance are accepted", "nodes:honest-dropped", format!("request {:?}: {} records relayed, {} reached the lookup", distances, want.len(), got.len()), replay));
    }
    if let Some(h) = s1.lookup.take() {
        h.abort();
    }
    Ok(json!({"d": d, "kind": kind, "packets": packets, "records": relayed.len(), "stored": stored, "own_record_returned": relayed.iter().any(|e| e.node_id() == resp_id)}))
}

/* ------------------------------------------------------------------------------------ */
/* World B: scripted (malicious) responder                                               */
/* ------------------------------------------------------------------------------------ */

#[derive(Clone, Debug, PartialEq, Eq, Hash, PartialOrd, Ord)]
pub enum Sym {
    OkA,
    OkB,
    Bad,
    SelfRec,
    Me,
}

#[derive(Clone, Debug)]
pub struct Shape {
    /// the responder's IP is on the ban list before the answer arrives
    pub ip_prebanned: bool,
    pub class: u64,
    /// (claimed total, records) per packet
    pub packets: Vec<(u64, Vec<Sym>)>,
    pub then_fail: bool,
}

struct Pool {
    ok: Vec<Enr>,
    bad: Enr,
    self_rec: Enr,
}

fn malicious_pool(m_id: &NodeId, distances: &[u64]) -> Pool {
    let pool = key_pool(m_id, 4000, 600);
    let mut ok = vec![];
    for d in distances {
        if let Some(ks) = pool.by_distance.get(d) {
            for k in ks.iter().take(12) {
                ok.push(record(*k, 1, false, 4));
            }
        }
    }
    // a record at an unrequested distance
    let bad_key = pool.by_distance.iter().rev().find(|(d, _)| !distances.contains(d)).map(|(_, ks)| ks[0]).expect("bad record");
    Pool { ok, bad: record(bad_key, 1, false, 4), self_rec: record(RESPONDER, 1, false, 0) }
}

async fn malicious(shape: &Shape) -> Result<Value, Violation> {
    let m_id = util::node_id(&util::key(RESPONDER));
    let m_enr = record(RESPONDER, 1, false, 0);
    let target = target_at(&m_id, shape.class);
    let (mut s1, req_id, distances) = start_lookup_with(m_enr.clone(), target, shape.ip_prebanned).await;
    let replay = json!({"engine":"ssim","check":"C11","world":"malicious","request":distances,"shape":format!("{:?}",shape)});
    let pool = malicious_pool(&m_id, &distances);
    let me = s1.node.discv5.local_enr();
    let resolve = |s: &Sym| -> Option<Enr> {
        match s {
            Sym::OkA => pool.ok.first().cloned(),
            Sym::OkB => pool.ok.get(1).cloned(),
            Sym::Bad => Some(pool.bad.clone()),
            Sym::SelfRec => Some(pool.self_rec.clone()),
            Sym::Me => Some(me.clone()),
        }
    };
    let on_distance = |e: &Enr| -> bool {
        let d = if e.node_id() == m_id { 0 } else { dist_from(&m_id, e) };
        distances.contains(&d)
    };
    // reference: completion point, accumulated on-distance records, ban
    let mut expect_ban = false;
    let mut acc: Vec<Enr> = vec![];
    let mut processed_on: Vec<Enr> = vec![];
    let mut done = false;
    let mut consistent = true;
    let mut k = 0u64;
    let n_packets = shape.packets.len() as u64;
    for (total, syms) in &shape.packets {
        let recs: Vec<Enr> = syms.iter().filter_map(resolve).collect();
        if recs.len() != syms.len() {
            return Ok(json!({"skipped": true})); // symbol not available for this request class
        }
        if !done {
            k += 1;
            let before = acc.len();
            for r in &recs {
                if on_distance(r) {
                    acc.push(r.clone());
                    processed_on.push(r.clone());
                } else {
                    expect_ban = true;
                }
            }
            if k >= *total || k >= 15 || before >= 16 {
                done = true;
            }
            if *total != n_packets {
                consistent = false;
            }
        }
        let resp = v::Response { id: req_id.clone(), body: v::ResponseBody::Nodes { total: *total, nodes: recs } };
        s1.node.inject(HandlerOut::Response(s1.peer.1.clone(), Box::new(resp))).await;
    }
    let mut failed = false;
    if !done && shape.then_fail {
        s1.node.inject(HandlerOut::RequestFailed(req_id.clone(), discv5::RequestError::Timeout)).await;
        failed = true;
    }
    let got: BTreeSet<[u8; 32]> = discovered(s1.node.drain_events()).iter().map(|e| e.node_id().raw()).collect();
    let allowed: BTreeSet<[u8; 32]> = processed_on.iter().filter(|e| e.node_id() != s1.node.id).map(|e| e.node_id().raw()).collect();
    // offender: the node id must be banned; honest: neither its id nor its address (unless the
    // address was blocked before)
    let is_banned = if shape.ip_prebanned { node_banned(&s1.peer.1) } else { banned(&s1.peer.1) };
    let id_banned = node_banned(&s1.peer.1);
    if let Some(h) = s1.lookup.take() {
        h.abort();
    }
    let extra: Vec<_> = got.difference(&allowed).collect();
    if !extra.is_empty() {
        return Err(vio("records accepted from a NODES answer are exactly those at a requested distance", "nodes:off-distance-accepted", format!("request {:?}: {} record(s) at an unrequested distance (or sent after completion) reached the lookup", distances, extra.len()), replay));
    }
    // "never banned" is promised to responders that answer as the protocol prescribes: distinct
    // records, one consistent total equal to the number of packets
    let well_formed = consistent && done && {
        let all: Vec<[u8; 32]> = shape.packets.iter().flat_map(|(_, s)| s.iter().filter_map(resolve)).map(|e| e.node_id().raw()).collect();
        let set: BTreeSet<[u8; 32]> = all.iter().copied().collect();
        set.len() == all.len()
    };
    if expect_ban && !id_banned {
        return Err(vio("a responder that returns records at other distances is banned", "nodes:id-not-banned", format!("request {:?}: the responder's node id is not on the ban list after an off-distance record was processed (its IP was {}blocked before)", distances, if shape.ip_prebanned { "" } else { "not " }), replay));
    }
    if is_banned != expect_ban && (expect_ban || well_formed) {
        let key = if is_banned { "nodes:banned-without-cause" } else { "nodes:not-banned" };
        return Err(vio("a responder that returns records at other distances is banned (and only such a responder)", key, format!("request {:?}: banned={is_banned}, off-distance record processed={expect_ban}", distances), replay));
    }
    if (done && consistent || failed) && got != allowed && (done || failed) {
        // complete, self-consistent answers (or partial answers followed by a failure report)
        // must deliver every on-distance record
        let total_one = shape.packets.iter().any(|(t, _)| *t <= 1) && shape.packets.len() > 1;
        if !total_one {
            return Err(vio("records at a requested distance are accepted", "nodes:on-distance-dropped", format!("request {:?}: {} of {} on-distance records reached the lookup", distances, got.len(), allowed.len()), replay));
        }
    }
    Ok(json!({"done": done, "banned": is_banned, "accepted": got.len(), "skipped": false}))
}

/// More than 15 packets for one request / packets after completion.
async fn flood(class: u64, after_completion: bool) -> Result<Value, Violation> {
    let m_id = util::node_id(&util::key(RESPONDER));
    let m_enr = record(RESPONDER, 1, false, 0);
    let target = target_at(&m_id, class);
    let (mut s1, req_id, distances) = start_lookup(m_enr.clone(), target).await;
    let replay = json!({"engine":"ssim","check":"C11","world":"flood","request":distances,"after_completion":after_completion});
    let pool = malicious_pool(&m_id, &distances);
    if pool.ok.len() < 22 {
        return Ok(json!({"skipped": true}));
    }
    let mut sent = 0;
    if !after_completion {
        for i in 0..22 {
            let resp = v::Response { id: req_id.clone(), body: v::ResponseBody::Nodes { total: u64::MAX, nodes: vec![pool.ok[i].clone()] } };
            s1.node.inject(HandlerOut::Response(s1.peer.1.clone(), Box::new(resp))).await;
            sent += 1;
        }
        let got = discovered(s1.node.drain_events());
        if got.len() > 15 {
            return Err(vio("a responder cannot make this node collect more than 15 response packets for one request", "nodes:too-many-packets", format!("{} records from {} one-record packets accepted", got.len(), sent), replay));
        }
        if got.len() < 15 {
            return Err(vio("records at a requested distance are accepted", "nodes:flood-dropped", format!("only {} of the first 15 packets accepted", got.len()), replay));
        }
        return Ok(json!({"accepted": got.len(), "sent": sent, "skipped": false}));
    }
    // complete with two packets, then send more: an on-distance one and an off-distance one
    for i in 0..2 {
        let resp = v::Response { id: req_id.clone(), body: v::ResponseBody::Nodes { total: 2, nodes: vec![pool.ok[i].clone()] } };
        s1.node.inject(HandlerOut::Response(s1.peer.1.clone(), Box::new(resp))).await;
    }
    let first = discovered(s1.node.drain_events());
    let table_before = s1.node.discv5.table_entries().len();
    for extra in [pool.ok[5].clone(), pool.bad.clone()] {
        let resp = v::Response { id: req_id.clone(), body: v::ResponseBody::Nodes { total: 2, nodes: vec![extra] } };
        s1.node.inject(HandlerOut::Response(s1.peer.1.clone(), Box::new(resp))).await;
    }
    let later = discovered(s1.node.drain_events());
    if first.len() != 2 || !later.is_empty() || banned(&s1.peer.1) || s1.node.discv5.table_entries().len() != table_before {
        return Err(vio("once a request completed further packets for it are ignored", "nodes:after-completion", format!("first {} records; after completion {} more records, banned={}", first.len(), later.len(), banned(&s1.peer.1)), replay));
    }
    Ok(json!({"accepted": first.len(), "skipped": false}))
}

fn shapes(thorough: bool) -> Vec<Shape> {
    let contents: Vec<Vec<Sym>> = vec![
        vec![],
        vec![Sym::OkA],
        vec![Sym::OkB],
        vec![Sym::Bad],
        vec![Sym::SelfRec],
        vec![Sym::Me],
        vec![Sym::OkA, Sym::Bad],
        vec![Sym::OkA, Sym::OkA],
        vec![Sym::OkA, Sym::OkB],
        vec![Sym::SelfRec, Sym::Bad],
        vec![Sym::SelfRec, Sym::SelfRec],
    ];
    let totals: Vec<u64> = vec![0, 1, 2, 3, 15, 16, 17, u64::MAX];
    let classes: Vec<u64> = if thorough { vec![0, 1, 2, 3, 4, 128, 252, 253, 254, 255, 256] } else { vec![0, 1, 2, 3, 254, 255, 256] };
    let mut out = vec![];
    for class in &classes {
        for t in &totals {
            for a in &contents {
                out.push(Shape { ip_prebanned: false, class: *class, packets: vec![(*t, a.clone())], then_fail: false });
                out.push(Shape { ip_prebanned: false, class: *class, packets: vec![(*t, a.clone())], then_fail: true });
                for b in &contents {
                    out.push(Shape { ip_prebanned: false, class: *class, packets: vec![(*t, a.clone()), (*t, b.clone())], then_fail: *t > 2 });
                    if thorough || *t == 3 || *t == 2 || *t == u64::MAX {
                        for c in &contents {
                            out.push(Shape { ip_prebanned: false, class: *class, packets: vec![(*t, a.clone()), (*t, b.clone()), (*t, c.clone())], then_fail: *t > 3 });
                        }
                    }
                }
            }
        }
        if thorough {
            for t in [4u64, u64::MAX] {
                for a in &contents {
                    for b in &contents {
                        for c in &contents {
                            for d in &contents {
                                out.push(Shape { ip_prebanned: false, class: *class, packets: vec![(t, a.clone()), (t, b.clone()), (t, c.clone()), (t, d.clone())], then_fail: t > 4 });
                            }
                        }
                    }
                }
            }
        }
        // inconsistent totals
        for a in &contents {
            out.push(Shape { ip_prebanned: false, class: *class, packets: vec![(3, a.clone()), (1, vec![Sym::OkB])], then_fail: false });
            out.push(Shape { ip_prebanned: false, class: *class, packets: vec![(2, a.clone()), (3, vec![Sym::Bad]), (3, vec![Sym::OkB])], then_fail: false });
        }
    }
    out
}

pub fn run(args: &[String]) {
    // The permit/ban list is process-global: every world runs alone in its process; shards are
    // separate processes.
    let thorough = std::env::var("VERIF_TIER_ARG").map(|t| t == "thorough").unwrap_or(false);
    let kinds: Vec<u8> = vec![0, 1, 2];
    let mut honest_cases: Vec<(u64, u8)> = vec![];
    for d in 0..=256u64 {
        for k in &kinds {
            if *k == 0 || d >= 250 {
                honest_cases.push((d, *k));
            }
        }
    }
    let mut shapes = shapes(thorough);
    // the same answers from a responder whose IP address was blocked earlier
    let again: Vec<Shape> = shapes.iter().filter(|s| thorough || s.packets.len() <= 2).map(|s| Shape { ip_prebanned: true, class: s.class, packets: s.packets.clone(), then_fail: s.then_fail }).collect();
    shapes.extend(again);
    let floods: Vec<(u64, bool)> = vec![(256, false), (255, false), (256, true), (254, true)];
    if let Some((i, n)) = mc::shard() {
        let mut problems: Vec<Value> = vec![];
        let mut results: Vec<Value> = vec![];
        let (mut a, mut b, mut skipped) = (0u64, 0u64, 0u64);
        for (j, (d, k)) in honest_cases.iter().enumerate() {
            if j % n == i {
                a += 1;
                match rt::run(honest(*d, *k)) {
                    Ok(r) => {
                        if results.len() < 6 && r["records"].as_u64().unwrap_or(0) > 0 {
                            results.push(r);
                        }
                    }
                    Err(v) => problems.push(mc::violation_to_json(&v)),
                }
            }
        }
        let (mut bans, mut accepted) = (0u64, 0u64);
        for (j, s) in shapes.iter().enumerate() {
            if j % n == i {
                match rt::run(malicious(s)) {
                    Ok(r) => {
                        if r["skipped"] == true {
                            skipped += 1;
                        } else {
                            b += 1;
                            if r["banned"] == true {
                                bans += 1;
                            }
                            accepted += r["accepted"].as_u64().unwrap_or(0);
                        }
                    }
                    Err(v) => {
                        if problems.len() < 40 {
                            problems.push(mc::violation_to_json(&v))
                        }
                    }
                }
            }
        }
        let mut fl = 0u64;
        for (j, (c, after)) in floods.iter().enumerate() {
            if j % n == i {
                match rt::run(flood(*c, *after)) {
                    Ok(r) => {
                        if r["skipped"] != true {
                            fl += 1
                        }
                    }
                    Err(v) => problems.push(mc::violation_to_json(&v)),
                }
            }
        }
        mc::shard_finish(json!({"honest": a, "malicious": b, "skipped": skipped, "bans": bans, "accepted": accepted, "floods": fl, "problems": problems, "samples": results}));
    }
    let mut rep = Report::new("C11", "model_checking");
    let n = mc::threads().min(16);
    let outs = mc::run_shards(args, n);
    let (mut a, mut b, mut skipped, mut bans, mut accepted, mut fl) = (0u64, 0u64, 0u64, 0u64, 0u64, 0u64);
    let mut problems = vec![];
    for o in &outs {
        a += o["honest"].as_u64().unwrap_or(0);
        b += o["malicious"].as_u64().unwrap_or(0);
        skipped += o["skipped"].as_u64().unwrap_or(0);
        bans += o["bans"].as_u64().unwrap_or(0);
        accepted += o["accepted"].as_u64().unwrap_or(0);
        fl += o["floods"].as_u64().unwrap_or(0);
        for p in o["problems"].as_array().cloned().unwrap_or_default() {
            problems.push(mc::violation_from_json(&p));
        }
        for s in o["samples"].as_array().cloned().unwrap_or_default() {
            rep.sample(json!({"world":"honest","result":s}));
        }
    }
    rep.sample(json!({"world":"malicious","shape":format!("{:?}", shapes[shapes.len() / 2])}));
    rep.set("honest_worlds", a);
    rep.set("malicious_answers", b);
    rep.set("answer_shapes_not_applicable", skipped);
    rep.set("flood_worlds", fl);
    rep.set("answers_leading_to_a_ban", bans);
    rep.set("records_accepted", accepted);
    rep.set("states", a + b + fl);
    rep.set("transitions", a + b + fl);
    rep.set("traces_validated_against_impl", a + b + fl);
    rep.set("evaluations", a + b + fl);
    rep.set("distinct_nontrivial", a + b + fl);
    rep.set("exhaustive", true);
    rep.set("processes", n as u64);
    rep.set("rule", "world A: for every log2-distance class 0..256 between lookup target and responder (i.e. every request list the lookup code can generate) × responder table {empty, records at the requested distances, full buckets of 300-byte records} a real requester service and a real responder service are relayed by the harness; world B: for request classes {[0],[1,2,0],[2,3,1],high distances} every answer of ≤ 2 (thorough 3) packets over 11 packet contents × 8 claimed totals (+ inconsistent totals, + failure report after a partial answer), flood of 22 packets, packets after completion; reference: completion point, on-distance filter, ban iff an off-distance record was processed. One world per execution; the process-global ban list is reset by Discv5::new; shards are processes");
    rep.assume("real keys cannot be generated at low distances from the responder: for low request classes the only on-distance record is the responder's own");
    for p in problems {
        rep.violation(p);
    }
    if a < 257 || b < 100 || bans == 0 || accepted == 0 || fl < 2 {
        rep.vacuous("C11 vacuous");
    }
    rep.finish();
}
