//! C02: delivered messages are authentic and untampered — fault enumeration over every genuine
//! datagram of three base exchanges (fresh session, re-keyed session with old keys retained,
//! session awaiting the peer's record).
use crate::hsim::{run_history_with, Body, Driver, Ev, HCfg, Monitors, Req, World};
use crate::mc::{self, Report};
use crate::rt;
use crate::util;
use discv5::verif::{self as v, HandlerOut, HandlerSnapshot, VPacket};
use serde_json::json;
use std::net::SocketAddr;

#[derive(Clone, Debug, PartialEq, Eq, Hash)]
pub enum Mutn {
    None,
    Flip(usize, u8),
    Trunc(usize),
    Insert(usize, u8),
    Append(usize),
    /// set byte `pos` of the *unmasked* header to `old ^ x`, re-mask
    Unmasked(usize, u8),
    /// this datagram's IV+header with the body of logged datagram j
    HeaderWithBodyOf(usize),
    /// logged datagram j's IV+header with this datagram's body
    BodyWithHeaderOf(usize),
    /// re-mask the header for node w and deliver it there
    RemaskFor(usize),
    /// deliver the unchanged bytes to node w
    Redirect(usize),
    /// deliver the unchanged bytes from another source address (0: third node's, 1: a stranger's,
    /// 2: the genuine IP with another port, 3: the IPv4-mapped / unmapped spelling of the genuine
    /// address, 4: its IPv4-compatible spelling ::a.b.c.d)
    ForeignSrc(u8),
    /// unmasked domain: append `n` bytes to the auth-data and fix the auth-data size, re-mask
    AuthTail(usize),
    /// unmasked domain: drop the last `n` bytes of the auth-data and fix the size, re-mask
    AuthTrim(usize),
    /// unmasked domain: move `n` bytes from the start of the body into the auth-data (size + n)
    AuthGrow(usize),
    /// replace the datagram by a message packet claiming the genuine sender, carrying a request
    /// the sender never made, encrypted under a degenerate key (0: all zero, 1: all 0xff)
    DegenerateKey(u8),
}

pub struct Tamper {
    pub m: Mutn,
}

fn header_len(dst_id: &discv5::enr::NodeId, bytes: &[u8]) -> Option<usize> {
    VPacket::decode(dst_id, bytes).ok().map(|(_, aad)| aad.len())
}

fn remask(bytes: &[u8], from: &discv5::enr::NodeId, to: &discv5::enr::NodeId, edit: impl FnOnce(&mut Vec<u8>)) -> Option<Vec<u8>> {
    use aes::cipher::{KeyIvInit, StreamCipher};
    type Ctr = ctr::Ctr64BE<aes::Aes128>;
    let hl = header_len(from, bytes)?;
    let iv: [u8; 16] = bytes[..16].try_into().ok()?;
    let mut hdr = bytes[16..hl].to_vec();
    let mut c = Ctr::new(from.raw()[..16].into(), iv[..].into());
    c.apply_keystream(&mut hdr);
    edit(&mut hdr);
    let mut c = Ctr::new(to.raw()[..16].into(), iv[..].into());
    c.apply_keystream(&mut hdr);
    let mut out = iv.to_vec();
    out.extend_from_slice(&hdr);
    out.extend_from_slice(&bytes[hl..]);
    Some(out)
}

impl Driver for Tamper {
    fn ext_enabled(&self, w: &World) -> Vec<(Ev, u32)> {
        if w.inflight.is_empty() || w.scratch.iter().any(|(k, _)| k == "mutated") {
            vec![]
        } else {
            vec![(Ev::Ext(0), 1)]
        }
    }

    fn ext_step<'a>(&'a self, w: &'a mut World, _code: u32) -> std::pin::Pin<Box<dyn std::future::Future<Output = ()> + 'a>> {
        Box::pin(async move {
            let d = w.inflight.remove(0);
            w.scratch.push(("mutated".into(), vec![]));
            let stranger: SocketAddr = util::v4(10, 0, 0, 77, 9000);
            let mut target = w.node_by_addr(&d.dst);
            let mut src = d.src;
            let mut bytes = d.bytes.clone();
            match &self.m {
                Mutn::None => {}
                Mutn::Flip(p, b) => {
                    if *p < bytes.len() {
                        bytes[*p] ^= 1 << b
                    }
                }
                Mutn::Trunc(l) => bytes.truncate(*l),
                Mutn::Insert(p, x) => {
                    if *p <= bytes.len() {
                        bytes.insert(*p, *x)
                    }
                }
                Mutn::Append(n) => bytes.extend(std::iter::repeat(0x5c).take(*n)),
                Mutn::Unmasked(p, x) => {
                    if let Some(b) = remask(&bytes, &d.dst_id, &d.dst_id, |h| {
                        if *p < h.len() {
                            h[*p] ^= *x
                        }
                    }) {
                        bytes = b;
                    }
                }
                Mutn::HeaderWithBodyOf(j) => {
                    if let (Some(o), Some(hl)) = (w.log.get(*j), header_len(&d.dst_id, &bytes)) {
                        if let Some(ohl) = header_len(&o.dst_id, &o.bytes) {
                            let mut b = bytes[..hl].to_vec();
                            b.extend_from_slice(&o.bytes[ohl..]);
                            bytes = b;
                        }
                    }
                }
                Mutn::BodyWithHeaderOf(j) => {
                    if let (Some(o), Some(hl)) = (w.log.get(*j).cloned(), header_len(&d.dst_id, &bytes)) {
                        if let Some(ohl) = header_len(&o.dst_id, &o.bytes) {
                            // the foreign header must be masked for this destination
                            let oh = if o.dst_id == d.dst_id { Some(o.bytes[..ohl].to_vec()) } else { remask(&o.bytes, &o.dst_id, &d.dst_id, |_| {}).map(|x| x[..ohl].to_vec()) };
                            if let Some(mut b) = oh {
                                b.extend_from_slice(&bytes[hl..]);
                                bytes = b;
                            }
                        }
                    }
                }
                Mutn::RemaskFor(n) => {
                    if let Some(b) = remask(&bytes, &d.dst_id, &w.nodes[*n].id.clone(), |_| {}) {
                        bytes = b;
                    }
                    target = Some(*n);
                }
                Mutn::Redirect(n) => target = Some(*n),
                Mutn::DegenerateKey(k) => {
                    // who really sent the genuine datagram
                    if let Some(sender) = w.node_by_addr(&d.src) {
                        let key = if *k == 0 { [0u8; 16] } else { [0xffu8; 16] };
                        let msg = v::Request { id: v::RequestId(vec![0xDE, 0xAD]), body: v::RequestBody::Talk { protocol: b"forged".to_vec(), request: vec![7] } }.encode();
                        let mut s = v::VSession::from_keys(key, key);
                        if let Ok(p) = s.encrypt_message(w.nodes[sender].id, &msg) {
                            bytes = p.encode(&d.dst_id);
                        }
                    }
                }
                Mutn::ForeignSrc(k) => {
                    src = match *k {
                        0 => w.nodes[w.nodes.len() - 1].addr,
                        1 => stranger,
                        2 => std::net::SocketAddr::new(src.ip(), src.port() + 1),
                        4 => match src {
                            std::net::SocketAddr::V4(a) => std::net::SocketAddr::new(a.ip().to_ipv6_compatible().into(), a.port()),
                            other => other,
                        },
                        _ => match src {
                            std::net::SocketAddr::V4(a) => std::net::SocketAddr::new(a.ip().to_ipv6_mapped().into(), a.port()),
                            std::net::SocketAddr::V6(a) => std::net::SocketAddr::new(a.ip().to_ipv4_mapped().map(std::net::IpAddr::V4).unwrap_or_else(|| {
                                let mut s = a.ip().segments();
                                s[7] ^= 0x100;
                                std::net::IpAddr::V6(s.into())
                            }), a.port()),
                        },
                    }
                }
                Mutn::AuthTail(n) | Mutn::AuthTrim(n) | Mutn::AuthGrow(n) => {
                    let grow = matches!(self.m, Mutn::AuthGrow(_));
                    let tail = matches!(self.m, Mutn::AuthTail(_));
                    let n = *n;
                    if let Some(hl) = header_len(&d.dst_id, &bytes) {
                        let body = bytes[hl..].to_vec();
                        let mut moved = 0usize;
                        let edited = remask(&bytes, &d.dst_id, &d.dst_id, |h| {
                            // h = static header (23) ‖ auth-data
                            let mut asz = u16::from_be_bytes([h[21], h[22]]) as usize;
                            if tail {
                                h.extend(std::iter::repeat(0x41).take(n));
                                asz += n;
                            } else if grow {
                                moved = n.min(body.len());
                                // the moved bytes are taken as they are on the wire; after re-masking they
                                // become auth-data bytes
                                h.extend_from_slice(&body[..moved]);
                                asz += moved;
                            } else {
                                let cut = n.min(asz);
                                h.truncate(h.len() - cut);
                                asz -= cut;
                            }
                            let b = (asz as u16).to_be_bytes();
                            h[21] = b[0];
                            h[22] = b[1];
                        });
                        if let Some(e) = edited {
                            // `remask` re-appended the original body; rebuild with the intended body
                            let new_hl = e.len() - body.len();
                            let mut out = e[..new_hl].to_vec();
                            out.extend_from_slice(&body[moved..]);
                            bytes = out;
                        }
                    }
                }
            }
            if bytes != d.bytes {
                w.scratch.push(("tampered".into(), vec![target.unwrap_or(99) as u8]));
            }
            if let Some(t) = target {
                w.log_mark = w.log.len();
                w.deliver_raw(t, src, &bytes, d.kind, d.nonce, -1).await;
            }
        })
    }

    /// Everything handed to any application must be a message its attributed sender submitted.
    fn check(&self, w: &mut World, ev: &Ev, _pre: &[Option<HandlerSnapshot>]) {
        // a datagram that differs from the genuine one is never the carrier of a delivered message
        if let Ev::Ext(_) = ev {
            if let Some((_, t)) = w.scratch.iter().find(|(k, _)| k == "tampered").cloned() {
                let n = t[0] as usize;
                if n < w.nodes.len() {
                    let delivered = w.last_raw[n].iter().any(|r| matches!(r, HandlerOut::Request(..) | HandlerOut::Response(..)));
                    if delivered {
                        w.violate("C02", "a delivered message is bound to the datagram's own header: an altered datagram never produces a delivered message", "tampered-datagram-accepted", format!("node {n} delivered a message carried by a datagram altered by {:?}", self.m));
                    } else {
                        w.count("tampered_datagrams_rejected");
                    }
                }
            }
        }
        for n in 0..w.nodes.len() {
            for raw in w.last_raw[n].clone() {
                match raw {
                    HandlerOut::Request(addr, req) => {
                        let sender = w.nodes.iter().position(|x| x.id == addr.node_id && x.addr == addr.socket_addr);
                        let ok = match sender {
                            None => false,
                            Some(s) => {
                                let workload = (0..w.cfg.workload.len()).any(|k| {
                                    let r = &w.cfg.workload[k];
                                    r.from == s && r.to == n && crate::hsim::workload_id(k) == req.id.0 && w.submitted[k] && body_matches(&r.body, &req.body, k)
                                });
                                let internal = matches!(&req.body, v::RequestBody::FindNode { distances } if distances == &vec![0]) && w.internal.contains_key(&(s, req.id.0.clone()));
                                workload || internal
                            }
                        };
                        if ok {
                            w.count("authentic_deliveries");
                        } else {
                            w.violate("C02", "every request handed to the application as coming from peer P is a message P's side encrypted for this node", "forged-request", format!("node {n} got Request {} attributed to {} at {} after {:?} with mutation {:?}", req.body, w.name_of(&addr.node_id), addr.socket_addr, ev, self.m));
                        }
                    }
                    HandlerOut::Response(addr, resp) => {
                        let sender = w.nodes.iter().position(|x| x.id == addr.node_id && x.addr == addr.socket_addr);
                        let ok = match sender {
                            None => false,
                            Some(s) => {
                                let workload = (0..w.cfg.workload.len()).any(|k| {
                                    let r = &w.cfg.workload[k];
                                    r.from == n && r.to == s && crate::hsim::workload_id(k) == resp.id.0 && response_matches(&r.body, &resp.body)
                                });
                                // answers to internal requests that surface at the application
                                let internal = w.internal.contains_key(&(n, resp.id.0.clone()));
                                workload || internal
                            }
                        };
                        if ok {
                            w.count("authentic_deliveries");
                        } else {
                            w.violate("C02", "every response handed to the application as coming from peer P is a message P's side encrypted for this node", "forged-response", format!("node {n} got Response {} attributed to {} at {} after {:?} with mutation {:?}", resp.body, w.name_of(&addr.node_id), addr.socket_addr, ev, self.m));
                        }
                    }
                    _ => {}
                }
            }
        }
    }
}

fn body_matches(b: &Body, got: &v::RequestBody, k: usize) -> bool {
    match (b, got) {
        (Body::Ping, v::RequestBody::Ping { enr_seq }) => *enr_seq == 1,
        (Body::Find(_), v::RequestBody::FindNode { distances }) => distances == &vec![255, 256],
        (Body::Talk, v::RequestBody::Talk { protocol, request }) => protocol == b"p" && request == &vec![k as u8],
        _ => false,
    }
}

fn response_matches(b: &Body, got: &v::ResponseBody) -> bool {
    match (b, got) {
        (Body::Ping, v::ResponseBody::Pong { enr_seq, port, .. }) => *enr_seq == 1 && port.get() == 9000,
        (Body::Find(n), v::ResponseBody::Nodes { total, nodes }) => *total == (*n).max(1) as u64 && nodes.is_empty(),
        (Body::Talk, v::ResponseBody::Talk { response }) => response == &vec![1],
        _ => false,
    }
}

fn req(from: usize, to: usize, body: Body, with_enr: bool) -> Req {
    Req { from, to, body, with_enr }
}

/// Base exchanges: (name, cfg, prefix of scripted events before the default policy takes over)
fn bases() -> Vec<(String, HCfg, Vec<Ev>)> {
    let quiet = |w: Vec<Req>, restart: Vec<usize>| HCfg { nodes: 3, workload: w, allow_drop: false, allow_dup: false, allow_reorder: false, allow_early_timer: false, allow_late_way: false, allow_restart: restart, ..Default::default() };
    vec![
        ("fresh".into(), quiet(vec![req(1, 0, Body::Ping, true), req(0, 1, Body::Talk, true), req(1, 0, Body::Find(2), true)], vec![]), vec![]),
        // the recipient knows no record of the initiator: WHOAREYOU carries enr-seq 0 and the handshake a record
        ("fresh-unknown".into(), quiet(vec![req(1, 0, Body::Ping, true), req(0, 1, Body::Talk, true)], vec![]), vec![Ev::Submit(0), Ev::Deliver(0), Ev::AnsWay(0, false)]),
        // the same over IPv6 (addresses take other code paths in address comparison and hashing)
        ("fresh-ipv6".into(), HCfg { ipv6: true, ..quiet(vec![req(1, 0, Body::Ping, true), req(0, 1, Body::Talk, true)], vec![]) }, vec![]),
        ("awaiting-record".into(), quiet(vec![req(0, 1, Body::Ping, false), req(1, 0, Body::Talk, true), req(0, 1, Body::Find(2), false)], vec![]), vec![]),
        // the dialled peer (no record known) sends a request of its own while the dialler still waits
        // for its record: the peer's FINDNODE[0] is delivered but not answered before the TALK
        ("awaiting-record-peer-request".into(), quiet(vec![req(0, 1, Body::Ping, false), req(1, 0, Body::Talk, true)], vec![]), vec![Ev::Submit(0), Ev::Deliver(0), Ev::AnsWay(1, true), Ev::Deliver(0), Ev::Deliver(0), Ev::Deliver(0), Ev::Submit(1)]),
        // node 1 loses its sessions after the first exchange; node 0 then re-keys in place (old keys retained)
        ("re-keyed".into(), quiet(vec![req(0, 1, Body::Ping, true), req(0, 1, Body::Talk, true), req(1, 0, Body::Ping, true)], vec![1]), vec![Ev::Submit(0), Ev::Deliver(0), Ev::AnsWay(1, true), Ev::Deliver(0), Ev::Deliver(0), Ev::Respond(1), Ev::Deliver(0), Ev::Restart(1)]),
    ]
}

/// The unmutated run: the full default history and, per delivery step, (length, header length).
async fn base_history(cfg: &HCfg, prefix: &[Ev]) -> (Vec<Ev>, Vec<(usize, usize, usize, usize)>, bool, bool) {
    let monitors = Monitors { c03: false, c04: false, c13: false, c15: false, c19: false, c20: false };
    let mut w = World::build(cfg, monitors).await;
    let d = Tamper { m: Mutn::None };
    let mut hist = vec![];
    let mut sites = vec![];
    let mut rekeyed = false;
    // a request datagram is delivered to a node whose session with the sender still awaits the record
    let mut request_while_awaiting = false;
    let mut i = 0;
    loop {
        let ev = if i < prefix.len() { Some(prefix[i].clone()) } else { w.default_event() };
        let ev = match ev {
            Some(e) => e,
            None => break,
        };
        if let Ev::Deliver(0) = ev {
            let dg = &w.inflight[0];
            let hl = header_len(&dg.dst_id, &dg.bytes).unwrap_or(dg.bytes.len());
            sites.push((hist.len(), dg.bytes.len(), hl, w.log.len()));
            if let Some(to) = w.node_by_addr(&dg.dst) {
                let awaiting = w.snap(to).map(|s| s.sessions.iter().any(|x| x.addr.socket_addr == dg.src && x.awaiting_enr.is_some())).unwrap_or(false);
                if awaiting && matches!(w.read(dg).0, crate::hsim::Plain::Request(..)) {
                    request_while_awaiting = true;
                }
            }
        }
        w.step(&ev, &d).await;
        if w.snap(0).map(|s| s.sessions.iter().any(|x| x.old_keys.is_some())).unwrap_or(false) {
            rekeyed = true;
        }
        hist.push(ev);
        i += 1;
        if i > 200 {
            mc::machinery("base history does not end");
        }
    }
    (hist, sites, rekeyed, request_while_awaiting)
}

fn mutations(len: usize, hl: usize, log_len: usize, thorough: bool) -> Vec<Mutn> {
    let mut m = vec![];
    for p in 0..len {
        let bits: Vec<u8> = if thorough || p < hl.min(16 + 23 + 34) { (0..8).collect() } else { vec![(p % 8) as u8] };
        for b in bits {
            m.push(Mutn::Flip(p, b));
        }
    }
    for l in 0..len {
        m.push(Mutn::Trunc(l));
    }
    for p in 0..=len {
        m.push(Mutn::Insert(p, 0x00));
        m.push(Mutn::Insert(p, 0xff));
    }
    m.push(Mutn::Append(1));
    m.push(Mutn::Append(16));
    for p in 0..(hl.saturating_sub(16)).min(23 + 34 + 70) {
        for x in [0x01u8, 0x80, 0xff] {
            m.push(Mutn::Unmasked(p, x));
        }
    }
    for j in 0..log_len {
        m.push(Mutn::HeaderWithBodyOf(j));
        m.push(Mutn::BodyWithHeaderOf(j));
    }
    for n in [1usize, 2, 16, 64] {
        m.push(Mutn::AuthTail(n));
        m.push(Mutn::AuthTrim(n));
        m.push(Mutn::AuthGrow(n));
    }
    m.push(Mutn::RemaskFor(2));
    m.push(Mutn::Redirect(2));
    m.push(Mutn::ForeignSrc(0));
    m.push(Mutn::ForeignSrc(1));
    m.push(Mutn::ForeignSrc(2));
    m.push(Mutn::ForeignSrc(3));
    m.push(Mutn::ForeignSrc(4));
    m.push(Mutn::DegenerateKey(0));
    m.push(Mutn::DegenerateKey(1));
    m
}

pub fn replay(payload: &serde_json::Value) {
    println!("C02 replay payload: {}", payload);
    println!("(re-run `./check C02 quick`: the enumeration is deterministic in its descriptors; the failing (base, site, mutation) triple is in the payload)");
}

pub fn run() {
    let mut rep = Report::new("C02", "fault_enumeration");
    let thorough = rep.thorough();
    let monitors = Monitors { c03: false, c04: false, c13: false, c15: false, c19: false, c20: false };
    let mut jobs: Vec<(usize, usize, Mutn)> = vec![];
    let bases = bases();
    let mut base_runs = vec![];
    for (bi, (name, cfg, prefix)) in bases.iter().enumerate() {
        let (hist, sites, rekeyed, request_while_awaiting) = rt::run(base_history(cfg, prefix));
        if name == "re-keyed" && !rekeyed {
            mc::machinery("re-keyed base exchange never retained old keys");
        }
        if name == "awaiting-record-peer-request" && !request_while_awaiting {
            mc::machinery("base exchange never delivered a request to a node still awaiting the sender's record");
        }
        for (si, (_step, len, hl, log_len)) in sites.iter().enumerate() {
            for m in mutations(*len, *hl, *log_len, thorough) {
                // the IPv6 base differs from "fresh" only in how addresses are handled: quick tier
                // applies the address / routing mutations and a thinned set of the byte mutations
                if name == "awaiting-record-peer-request" && !thorough && !matches!(m, Mutn::ForeignSrc(_) | Mutn::Redirect(_) | Mutn::RemaskFor(_) | Mutn::HeaderWithBodyOf(_) | Mutn::BodyWithHeaderOf(_) | Mutn::DegenerateKey(_) | Mutn::AuthTail(_)) {
                    continue;
                }
                if name == "fresh-ipv6" && !thorough && !matches!(m, Mutn::ForeignSrc(_) | Mutn::Redirect(_) | Mutn::RemaskFor(_) | Mutn::HeaderWithBodyOf(_) | Mutn::BodyWithHeaderOf(_) | Mutn::Append(_) | Mutn::AuthTail(_)) {
                    continue;
                }
                jobs.push((bi, si, m));
            }
        }
        rep.sample(json!({"base":name,"history":format!("{:?}",hist),"mutation_sites":sites.len()}));
        base_runs.push((hist, sites));
    }
    rep.set("mutation_sites", base_runs.iter().map(|b| b.1.len() as u64).sum::<u64>());
    let results = mc::par_map(&jobs, |(bi, si, m)| {
        let (hist, sites) = &base_runs[*bi];
        let step = sites[*si].0;
        let mut h: Vec<Ev> = hist[..step].to_vec();
        h.push(Ev::Ext(0));
        let d = Tamper { m: m.clone() };
        let out = rt::run(run_history_with(&bases[*bi].1, monitors.clone(), &h, true, &d));
        let authentic = out.counters.get("authentic_deliveries").copied().unwrap_or(0);
        (out.violation, out.terminal, authentic, out.steps)
    });
    let mut violations = vec![];
    let mut outcomes = std::collections::BTreeSet::new();
    let mut steps = 0u64;
    let mut unaffected = 0u64;
    let baseline_terminals: Vec<Option<String>> = base_runs
        .iter()
        .enumerate()
        .map(|(bi, (hist, _))| {
            let d = Tamper { m: Mutn::None };
            rt::run(run_history_with(&bases[bi].1, monitors.clone(), hist, true, &d)).terminal
        })
        .collect();
    for ((bi, si, m), (v, term, _auth, st)) in jobs.iter().zip(results.into_iter()) {
        steps += st;
        if term == baseline_terminals[*bi] {
            unaffected += 1;
        }
        outcomes.insert((format!("{:?}", m).split('(').next().unwrap_or("").to_string(), term.clone()));
        if let Some(mut v) = v {
            if v.key.starts_with("C02:") {
                v.replay = json!({"engine":"hsim","driver":"tamper","base":bases[*bi].0,"site":si,"mutation":format!("{:?}",m)});
                violations.push(v);
            }
        }
    }
    // forged handshakes: the attacker worlds of C01 with the attribution clause read for C02
    let (ast, avio, _) = crate::attack::explore("C02", thorough, mc::budget(thorough, 30.0, 0.5), if thorough { 4 } else { 2 });
    rep.set("attacker_worlds_states", ast.states);
    rep.set("attacker_worlds_executions", ast.executions);
    rep.set("attacker_worlds_attributed_events_with_proof", ast.counters.get("attributed_events_with_proof").copied().unwrap_or(0));
    violations.extend(avio);
    rep.set("evaluations", jobs.len() as u64 + ast.executions);
    rep.set("mutated_executions", jobs.len() as u64);
    rep.set("executions_with_unchanged_outcome", unaffected);
    rep.set("handler_steps_executed", steps);
    rep.set("distinct_nontrivial", outcomes.len() as u64);
    rep.set("exhaustive", true);
    rep.set("rule", "for every genuine datagram of three base exchanges (fresh / re-keyed with old keys retained / awaiting the peer's record; 3 real handlers incl. an uninvolved one) and every mutation descriptor — every bit flip (quick: all 8 bits in IV+static header+auth head, one bit per byte elsewhere), every truncation length, one inserted byte {00,ff} at every position, appended tails, unmasked-domain edits of header bytes (unmask, edit, re-mask), every splice of this header with another logged datagram's body and vice versa, re-masking for another node, redirection to another node, foreign source addresses — the base history is replayed up to the delivery, the mutated datagram is delivered instead and the run is completed by the default policy; oracle on every step: whatever any application receives is a message its attributed sender submitted, and an altered datagram never carries a delivered message; plus the attacker worlds of C01 (forged handshakes, replays; ≤ 3 (4) attacker moves) with the clause that requests / responses are attributed to a peer only if that peer proved its identity or the datagram really came from it. Mutations are descriptors applied to the current execution's bytes. distinct = distinct (mutation class, terminal outcome) pairs");
    rep.assume("symbolic attacker (no key material); AES-GCM / AES-CTR strength assumed, their use (AAD = IV ‖ header, keys per session) is executed for real");
    for v in violations.into_iter().take(10) {
        rep.violation(v);
    }
    if unaffected == 0 || (jobs.len() as u64) < 1000 {
        rep.vacuous("C02 vacuous");
    }
    rep.finish();
}
