//! Attacker / malicious-peer driver over `hsim`: C01 (identity), C03 (replays, forged WHOAREYOU),
//! C13 (malicious peers), handler part of C12.
//!
//! V = node 0 (victim, real handler), X = node 1 (genuine peer, real handler, silent unless the
//! workload says otherwise), M = crafted party with its own key k_M at its own address. M
//! computes exactly what a holder of k_M (and not k_X) can compute, with the crate's own
//! primitives; it sees every datagram on the wire.
use crate::clock;
use crate::hsim::{run_history_with, Body, Datagram, Driver, Ev, HCfg, Monitors, Req, World};
use crate::mc::{self, Limits, Report};
use crate::rt;
use crate::util;
use discv5::enr::{CombinedKey, NodeId};
use discv5::packet::PacketKind;
use discv5::verif::{self as v, HandlerOut, HandlerSnapshot, VPacket};
use discv5::{Enr, IpMode, NodeContact};
use serde_json::json;
use std::collections::BTreeMap;
use std::net::SocketAddr;

const V: usize = 0;
const X: usize = 1;
const M_KEY: u16 = 166;

fn m_key() -> CombinedKey {
    util::key(M_KEY)
}
fn m_addr() -> SocketAddr {
    util::v4(10, 0, 0, 66, 9000)
}
/// The IPv4-mapped IPv6 spelling of an IPv4 socket address (and back): a different source
/// address as far as the protocol is concerned.
fn mapped(a: SocketAddr) -> SocketAddr {
    match a {
        SocketAddr::V4(v4) => SocketAddr::new(v4.ip().to_ipv6_mapped().into(), v4.port()),
        SocketAddr::V6(v6) => match v6.ip().to_ipv4_mapped() {
            Some(ip) => SocketAddr::new(ip.into(), v6.port()),
            None => SocketAddr::V6(v6),
        },
    }
}
/// A third identity E whose key is Ed25519 (handshake signatures under such keys are not
/// supported: nothing can prove to be E). V's application knows E's record.
fn e_key() -> discv5::enr::CombinedKey {
    let mut b = [0x22u8; 32];
    discv5::enr::CombinedKey::ed25519_from_bytes(&mut b).expect("ed25519 key")
}
fn e_record() -> Enr {
    util::enr4(&e_key(), 1, util::v4(10, 0, 0, 77, 9000))
}
fn e_id() -> NodeId {
    e_record().node_id()
}
/// The deprecated IPv4-compatible IPv6 spelling ::a.b.c.d of an IPv4 socket address.
fn compatible(a: SocketAddr) -> SocketAddr {
    match a {
        SocketAddr::V4(v4) => SocketAddr::new(v4.ip().to_ipv6_compatible().into(), v4.port()),
        other => other,
    }
}
fn m_id() -> NodeId {
    util::node_id(&m_key())
}

/// Records the attacker may attach to a handshake.
fn m_record(variant: u8, x: &Enr) -> Option<Enr> {
    thread_local! {
        static CACHE: std::cell::RefCell<BTreeMap<u8, Enr>> = const { std::cell::RefCell::new(BTreeMap::new()) };
    }
    if variant == 0 {
        return None;
    }
    if variant == 5 {
        return Some(x.clone()); // X's genuine (public) record
    }
    Some(CACHE.with(|c| {
        c.borrow_mut()
            .entry(variant)
            .or_insert_with(|| {
                let k = m_key();
                match variant {
                    1 => util::enr4(&k, 1, m_addr()),
                    2 => util::enr4(&k, 9, m_addr()),
                    3 => util::enr4(&k, 9, x.udp4_socket().unwrap().into()), // X's address
                    6 => util::enr4(&k, 0, m_addr()),                        // older than the record V's application knows
                    7 => util::enr4(&k, 0, x.udp4_socket().unwrap().into()), // older, and advertising X's address
                    _ => util::enr(&k, &util::EnrSpec { seq: 9, ..Default::default() }), // no address
                }
            })
            .clone()
    }))
}

/* event codes ------------------------------------------------------------------------ */
// 0x01: MsgAs      claim (0 X, 1 M, 2 E = an Ed25519 identity V's application knows) << 8 | src (0 addr_M, 1 addr_X)
// 0x02: Handshake  challenge idx << 16 | claim << 12 | record << 8 | sig
// 0x03: Way        active-request idx << 8 | src (0 the request's destination, 1 addr_M, 2 destination IP with another port, 3 IPv4-mapped / 4 IPv4-compatible form of the destination)
// 0x04: Replay     log idx << 8 | src (0 original, 1 addr_M, 2 IPv4-mapped form of the original)
// 0x05: Answer     which << 8 | shape 0..8 (M answers V's oldest request to M; which = 1: the oldest request of V's handler itself)
// 0x08: MRequest   M sends a PING under the session keys it shares with V (once); arg 1: from the IPv4-mapped spelling of its address; arg 2: an undecodable request (FINDNODE [300]) instead
// 0x07: ZeroKey    a TALK request claiming X from X's address, encrypted under the all-zero key
// 0x06: Late       0: more than a challenge lifetime passes; 1: 0.6 of a lifetime passes (free, at most twice)
fn code(kind: u32, arg: u32) -> u32 {
    (kind << 24) | arg
}

#[derive(Clone)]
pub struct Attack {
    pub handshake_records: Vec<u8>,
    pub handshake_sigs: Vec<u8>,
    pub replays: bool,
    pub ways: bool,
    pub msgs: bool,
    /// free move (at most twice): 0.6 of a challenge lifetime passes while a challenge is outstanding
    pub halves: bool,
    /// also forge WHOAREYOUs from the IPv4-compatible spelling of the destination (thorough tier)
    pub compat: bool,
    /// the crafted peer also speaks from a second port of its own IP address, and its own message
    /// datagrams can be presented from there (C02: a datagram is bound to the address of its session)
    pub two_ports: bool,
    /// genuine message datagrams of X (e.g. the packet that made V challenge X) may be presented
    /// again from M's address
    pub replay_msgs: bool,
}

fn challenges_of(w: &World) -> Vec<(discv5::NodeAddress, Vec<u8>)> {
    w.snap(V).map(|s| s.challenges.iter().map(|c| (c.addr.clone(), c.challenge_data.clone())).collect()).unwrap_or_default()
}

/// WHOAREYOU datagrams V has sent so far: (destination, challenge data)
fn past_challenges(w: &World) -> Vec<(SocketAddr, Vec<u8>)> {
    w.log
        .iter()
        .filter(|d| d.kind == 1 && d.src == w.nodes[V].addr)
        .filter_map(|d| VPacket::decode(&d.dst_id, &d.bytes).ok().map(|(_, aad)| (d.dst, aad)))
        .collect()
}

/// V's active requests in a canonical order that does not depend on random ids / nonces.
fn canon_requests(w: &World) -> Vec<v::ActiveRequestSnap> {
    let mut reqs = w.snap(V).map(|s| s.active_requests).unwrap_or_default();
    // internal requests carry random ids: order them by when the harness first saw them
    reqs.sort_by_key(|a| (a.internal, w.id_name(&a.id), a.addr.socket_addr, format!("{}", a.body), w.internal.get(&(V, a.id.clone())).map(|x| x.1), a.handshake_sent, a.remaining));
    reqs
}

impl Attack {
    fn v_contact(w: &World) -> NodeContact {
        NodeContact::try_from_enr(w.nodes[V].enr.clone(), IpMode::Ip4).unwrap()
    }

    async fn send(w: &mut World, src: SocketAddr, p: VPacket) {
        let kind = match &p.kind {
            PacketKind::Message { .. } => 0,
            PacketKind::WhoAreYou { .. } => 1,
            PacketKind::Handshake { .. } => 2,
        };
        let nonce = p.message_nonce;
        let bytes = p.encode(&w.nodes[V].id);
        let d = Datagram { seq: w.log.len(), src, dst: w.nodes[V].addr, dst_id: w.nodes[V].id, bytes: bytes.clone(), kind, nonce, sent_at: std::time::Instant::now(), origin: -1 };
        w.log.push(d);
        w.log_mark = w.log.len();
        w.deliver_raw(V, src, &bytes, kind, nonce, -1).await;
    }
}

impl Driver for Attack {
    fn ext_enabled(&self, w: &World) -> Vec<(Ev, u32)> {
        let mut out = vec![];
        if self.msgs {
            out.push((Ev::Ext(code(1, 0 << 8 | 0)), 1));
            out.push((Ev::Ext(code(1, 0 << 8 | 1)), 1));
            out.push((Ev::Ext(code(1, 1 << 8 | 0)), 1));
            // M under its own id, but from another socket address than the one in its record
            out.push((Ev::Ext(code(1, 1 << 8 | 1)), 1));
            if !w.cfg.extra_known.is_empty() {
                out.push((Ev::Ext(code(1, 2 << 8 | 0)), 1));
            }
        }
        if self.two_ports {
            out.push((Ev::Ext(code(1, 1 << 8 | 2)), 1));
            for d in w.log.iter().filter(|d| d.dst == w.nodes[V].addr && d.kind == 0 && d.origin == -1) {
                out.push((Ev::Ext(code(4, (d.seq as u32) << 8 | 3)), 1));
            }
        }
        for (ci, (addr, _)) in challenges_of(w).iter().enumerate() {
            // the attacker answers challenges sent to addresses it can use: its own, or X's
            // address while X itself is silent (spoofed source, on-path attacker)
            let claims: Vec<u32> = if addr.node_id == w.nodes[X].id { vec![0] } else if addr.node_id == m_id() { vec![1] } else if addr.node_id == e_id() { vec![2] } else { vec![] };
            for cl in claims {
                for r in &self.handshake_records {
                    // quick tier: the records that matter for the claimed identity (X: none, M's own at
                    // seq 1 and seq 9, X's genuine one; M: none, its own, with X's address, an older one; E: none, M's)
                    if !self.compat && ((cl == 0 && !matches!(*r, 0 | 1 | 2 | 5)) || (cl == 1 && !matches!(*r, 0 | 1 | 3 | 6 | 7)) || (cl == 2 && !matches!(*r, 0 | 1))) {
                        continue;
                    }
                    for s in &self.handshake_sigs {
                        out.push((Ev::Ext(code(2, (ci as u32) << 16 | cl << 12 | (*r as u32) << 8 | *s as u32)), 1));
                    }
                }
            }
        }
        // a message claiming X from X's address under a degenerate (all-zero) key, while V holds a
        // session with X
        if self.msgs {
            if let Some(s) = w.snap(V) {
                if s.sessions.iter().any(|x| x.addr.node_id == w.nodes[X].id) {
                    out.push((Ev::Ext(code(7, 0)), 1));
                }
            }
        }
        // M as requester under an established session (also while V still awaits M's record)
        if self.msgs {
            if let Some(s) = w.snap(V) {
                if s.sessions.iter().any(|x| x.addr.socket_addr == m_addr()) && !w.scratch.iter().any(|(k, _)| k == "m-request") {
                    out.push((Ev::Ext(code(8, 0)), 1));
                    out.push((Ev::Ext(code(8, 1)), 1));
                    // arg 2: an authentic message that decrypts but is no valid RPC (FINDNODE for distance 300)
                    out.push((Ev::Ext(code(8, 2)), 1));
                }
            }
        }
        if self.ways {
            {
                for (ai, _a) in canon_requests(w).iter().enumerate() {
                    out.push((Ev::Ext(code(3, (ai as u32) << 8)), 1));
                    out.push((Ev::Ext(code(3, (ai as u32) << 8 | 1)), 1));
                    out.push((Ev::Ext(code(3, (ai as u32) << 8 | 2)), 1));
                    out.push((Ev::Ext(code(3, (ai as u32) << 8 | 3)), 1));
                    if self.compat {
                        out.push((Ev::Ext(code(3, (ai as u32) << 8 | 4)), 1));
                    }
                }
            }
        }
        if self.replay_msgs {
            for d in w.log.iter().filter(|d| d.dst == w.nodes[V].addr && d.kind == 0 && d.origin == X as i32) {
                out.push((Ev::Ext(code(4, (d.seq as u32) << 8 | 1)), 1));
            }
        }
        if self.replays {
            for d in w.log.iter().filter(|d| d.dst == w.nodes[V].addr && (d.kind == 2 || d.kind == 1)) {
                out.push((Ev::Ext(code(4, (d.seq as u32) << 8)), 1));
                out.push((Ev::Ext(code(4, (d.seq as u32) << 8 | 1)), 1));
                out.push((Ev::Ext(code(4, (d.seq as u32) << 8 | 2)), 1));
            }
        }
        // let more than a challenge lifetime pass while a challenge is outstanding
        if !challenges_of(w).is_empty() && !w.scratch.iter().any(|(k, _)| k == "late") {
            out.push((Ev::Ext(code(6, 0)), 1));
        }
        // (taken only while nothing else is pending, like the idle periods of the C15 worlds)
        let quiet = w.inflight.is_empty() && w.nodes.iter().all(|n| n.way_queries.is_empty() && n.inbound.is_empty());
        if self.halves && quiet && !challenges_of(w).is_empty() && w.scratch.iter().filter(|(k, _)| k == "half").count() < 2 {
            out.push((Ev::Ext(code(6, 1)), 0));
        }
        // M as responder: V has a request outstanding to M and a session with it
        if let Some(s) = w.snap(V) {
            let has_session = s.sessions.iter().any(|x| x.addr.socket_addr == m_addr());
            let has_req = s.active_requests.iter().any(|a| a.addr.socket_addr == m_addr());
            if has_session && has_req {
                for shape in 0..9u32 {
                    out.push((Ev::Ext(code(5, shape)), 1));
                }
                // the handler's own record request (FINDNODE [0] after a dial without a record)
                // answered ahead of the application's request
                if s.active_requests.iter().any(|a| a.addr.socket_addr == m_addr() && a.internal) && s.active_requests.iter().any(|a| a.addr.socket_addr == m_addr() && !a.internal) {
                    for shape in [3u32, 4, 5, 8] {
                        out.push((Ev::Ext(code(5, 1 << 8 | shape)), 1));
                    }
                }
            }
        }
        out
    }

    fn ext_step<'a>(&'a self, w: &'a mut World, c: u32) -> std::pin::Pin<Box<dyn std::future::Future<Output = ()> + 'a>> {
        Box::pin(async move {
            let (kind, arg) = (c >> 24, c & 0xff_ffff);
            let x_id = w.nodes[X].id;
            let x_addr = w.nodes[X].addr;
            match kind {
                1 => {
                    let claim = match (arg >> 8) & 0xf {
                        0 => x_id,
                        1 => m_id(),
                        _ => e_id(),
                    };
                    let src = match arg & 0xf {
                        0 => m_addr(),
                        1 => x_addr,
                        _ => SocketAddr::new(m_addr().ip(), m_addr().port() + 1),
                    };
                    Attack::send(w, src, VPacket::new_random(&claim)).await;
                }
                2 => {
                    let ci = (arg >> 16) as usize;
                    let claim = match (arg >> 12) & 0xf {
                        0 => x_id,
                        1 => m_id(),
                        _ => e_id(),
                    };
                    let rec = ((arg >> 8) & 0xf) as u8;
                    let sig = (arg & 0xf) as u8;
                    let chals = challenges_of(w);
                    let (addr, data) = match chals.get(ci) {
                        Some(c) => c.clone(),
                        None => mc::machinery("attack: challenge index out of range (replay divergence)"),
                    };
                    // harness-side fact: would this handshake prove the claimed identity?
                    // (it is signed with k_M, so only for claim == M)
                    let challenge_data = if sig == 1 {
                        // stale: challenge data of an earlier WHOAREYOU to the same address, if any
                        past_challenges(w).into_iter().filter(|(d, c)| *d == addr.socket_addr && *c != data).map(|(_, c)| c).last().unwrap_or_else(|| {
                            let mut c = data.clone();
                            c[40] ^= 1;
                            c
                        })
                    } else {
                        data.clone()
                    };
                    let record = m_record(rec, &w.nodes[X].enr.clone());
                    let msg = v::Request { id: v::RequestId(vec![0xEE]), body: v::RequestBody::Ping { enr_seq: 1 } }.encode();
                    let built = v::encrypt_with_header(&Attack::v_contact(w), m_key(), record, &claim, &challenge_data, &msg);
                    let (mut p, _enc, _dec) = match built {
                        Ok(b) => b,
                        Err(e) => mc::machinery(&format!("attack: cannot build handshake: {e}")),
                    };
                    if let PacketKind::Handshake { id_nonce_sig, ephem_pubkey, .. } = &mut p.kind {
                        match sig {
                            2 => *id_nonce_sig = vec![0u8; 64],
                            3 => *id_nonce_sig = vec![],
                            _ => {}
                        }
                        // proved(claim, addr): signature verifies under the key hashing to the claimed id
                        let claimed_key = if claim == m_id() { Some(util::enr4(&m_key(), 1, m_addr()).public_key()) } else { None };
                        if let Some(pk) = claimed_key {
                            if util::ref_verify_id_signature(&pk, ephem_pubkey, data.as_ref(), &w.nodes[V].id, id_nonce_sig) {
                                w.proved.insert((claim.raw(), addr.socket_addr));
                                // a genuine handshake of M carrying one of its own records: the PING
                                // enclosed in it must reach V's application in this very step
                                if (1..=4).contains(&rec) || rec == 6 || rec == 7 {
                                    w.scratch.push(("expect-request".into(), addr.socket_addr.to_string().into_bytes()));
                                }
                            }
                        }
                    }
                    Attack::send(w, addr.socket_addr, p).await;
                }
                3 => {
                    let ai = (arg >> 8) as usize;
                    let reqs = canon_requests(w);
                    let a = match reqs.get(ai) {
                        Some(a) => a.clone(),
                        None => mc::machinery("attack: request index out of range (replay divergence)"),
                    };
                    let src = match arg & 0xf {
                        0 => a.addr.socket_addr,
                        1 => m_addr(),
                        // the request's destination IP, another port
                        2 => SocketAddr::new(a.addr.socket_addr.ip(), a.addr.socket_addr.port() + 1),
                        // other spellings of the destination, same port: IPv4-mapped and IPv4-compatible IPv6
                        3 => mapped(a.addr.socket_addr),
                        _ => compatible(a.addr.socket_addr),
                    };
                    let mut idn = [0u8; 16];
                    idn[0] = w.scratch.len() as u8 + 1;
                    idn[15] = 0x5a;
                    let p = VPacket::new_whoareyou(a.nonce, idn, 0);
                    w.scratch.push(("way".into(), p.authenticated_data()));
                    Attack::send(w, src, p).await;
                }
                4 => {
                    let j = (arg >> 8) as usize;
                    let d = w.log[j].clone();
                    let src = match arg & 0xf {
                        0 => d.src,
                        1 => m_addr(),
                        3 => SocketAddr::new(d.src.ip(), d.src.port() + 1),
                        _ => mapped(d.src),
                    };
                    w.log_mark = w.log.len();
                    w.deliver_raw(V, src, &d.bytes, d.kind, d.nonce, d.origin).await;
                }
                8 => {
                    w.scratch.push(("m-request".into(), vec![]));
                    let s = w.snap(V).unwrap();
                    if let Some(sess) = s.sessions.iter().find(|x| x.addr.socket_addr == m_addr()).cloned() {
                        let body = if arg == 2 { v::RequestBody::FindNode { distances: vec![300] } } else { v::RequestBody::Ping { enr_seq: 1 } };
                        let msg = v::Request { id: v::RequestId(vec![0xEF]), body }.encode();
                        let mut session = v::VSession::from_keys(sess.decryption_key, sess.encryption_key);
                        if let Ok(p) = session.encrypt_message(m_id(), &msg) {
                            // arg 1: the same datagram seen from the IPv4-mapped spelling of M's address
                            let src = if arg == 1 { mapped(m_addr()) } else { m_addr() };
                            Attack::send(w, src, p).await;
                        }
                    }
                }
                7 => {
                    let msg = v::Request { id: v::RequestId(vec![0xDE, 0xAD]), body: v::RequestBody::Talk { protocol: b"forged".to_vec(), request: vec![7] } }.encode();
                    let mut s = v::VSession::from_keys([0u8; 16], [0u8; 16]);
                    if let Ok(p) = s.encrypt_message(x_id, &msg) {
                        Attack::send(w, x_addr, p).await;
                    }
                }
                6 if arg == 1 => {
                    w.scratch.push(("half".into(), vec![]));
                    w.advance_through(crate::hsim::REQUEST_TIMEOUT * 6 / 10).await;
                }
                6 => {
                    w.scratch.push(("late".into(), vec![]));
                    w.advance_through(crate::hsim::REQUEST_TIMEOUT + std::time::Duration::from_millis(100)).await;
                }
                5 => {
                    // M answers V's oldest request, using the session keys it shares with V
                    let s = w.snap(V).unwrap();
                    let sess = s.sessions.iter().find(|x| x.addr.socket_addr == m_addr()).cloned();
                    let want_internal = arg >> 8 == 1;
                    let arg = arg & 0xff;
                    let req = canon_requests(w).into_iter().find(|a| a.addr.socket_addr == m_addr() && (!want_internal || a.internal));
                    if let (Some(sess), Some(req)) = (sess, req) {
                        let x_rec = w.nodes[X].enr.clone();
                        let body = match (&req.body, arg) {
                            // NODES carrying X's genuine record / M's own record / M's record with X's address
                            (_, 3) => v::ResponseBody::Nodes { total: 1, nodes: vec![x_rec.clone()] },
                            (_, 4) => v::ResponseBody::Nodes { total: 1, nodes: vec![m_record(1, &x_rec).unwrap()] },
                            (_, 5) => v::ResponseBody::Nodes { total: 1, nodes: vec![m_record(3, &x_rec).unwrap()] },
                            // other genuine (publicly known) records of X: without any endpoint, IPv6 only
                            (_, 6) => v::ResponseBody::Nodes { total: 1, nodes: vec![util::enr(&util::key(100 + X as u16), &util::EnrSpec { seq: 2, ..Default::default() })] },
                            (_, 7) => v::ResponseBody::Nodes { total: 1, nodes: vec![util::enr(&util::key(100 + X as u16), &util::EnrSpec { seq: 2, ip6: Some(("2001:db8::11".parse().unwrap(), 9000)), ..Default::default() })] },
                            // a validly signed record of yet another identity that advertises M's socket
                            (_, 8) => v::ResponseBody::Nodes { total: 1, nodes: vec![util::enr4(&util::key(M_KEY + 1), 1, m_addr())] },
                            (_, 2) => v::ResponseBody::Talk { response: vec![9] }, // wrong type / garbage
                            (v::RequestBody::FindNode { .. }, 1) | (_, 1) => v::ResponseBody::Nodes { total: 3, nodes: vec![] },
                            (v::RequestBody::Ping { .. }, _) => v::ResponseBody::Pong { enr_seq: 1, ip: w.nodes[V].addr.ip(), port: 9000u16.try_into().unwrap() },
                            (v::RequestBody::FindNode { .. }, _) => v::ResponseBody::Nodes { total: 1, nodes: vec![] },
                            (v::RequestBody::Talk { .. }, _) => v::ResponseBody::Talk { response: vec![1] },
                        };
                        let msg = v::Response { id: v::RequestId(req.id.clone()), body }.encode();
                        // M's encryption key is V's decryption key
                        let mut session = v::VSession::from_keys(sess.decryption_key, sess.encryption_key);
                        if let Ok(p) = session.encrypt_message(m_id(), &msg) {
                            Attack::send(w, m_addr(), p).await;
                        }
                    }
                }
                _ => {}
            }
        })
    }

    fn check(&self, w: &mut World, ev: &Ev, pre: &[Option<HandlerSnapshot>]) {
        // responder liveness (handler part of C14): transient marker set by a genuine handshake
        if let Some(pos) = w.scratch.iter().position(|(k, _)| k == "expect-request") {
            let (_, from) = w.scratch.remove(pos);
            let from = String::from_utf8(from).unwrap_or_default();
            let delivered = w.last_raw[V].iter().any(|e| matches!(e, HandlerOut::Request(a, r) if a.node_id == m_id() && a.socket_addr.to_string() == from && r.id.0 == vec![0xEE]));
            if delivered {
                w.count("requests_in_genuine_handshakes_delivered");
            } else {
                w.violate("C14", "every PING is answered: a request enclosed in a valid handshake reaches the application", "request-in-handshake-dropped", format!("V did not hand the PING enclosed in M's valid handshake from {from} to its application after {:?}", ev));
            }
        }
        // C20 / C14: an authentic message of M that is no valid RPC is ignored; it never costs M its
        // session while V's application holds a request of M (the answer could not be sent any more)
        if let Ev::Ext(c) = ev {
            if c >> 24 == 8 && (c & 0xff) == 2 {
                let had = pre[V].as_ref().map(|p| p.sessions.iter().any(|s| s.addr.socket_addr == m_addr())).unwrap_or(false);
                let has = w.snap(V).map(|p| p.sessions.iter().any(|s| s.addr.socket_addr == m_addr())).unwrap_or(false);
                let held = w.nodes[V].inbound.iter().any(|(a, _)| a.socket_addr == m_addr());
                if had && held {
                    w.count("undecodable_messages_with_a_held_request");
                    if !has {
                        let detail = format!("V dropped its session with M on receiving an authentic but undecodable message from it while its application holds a request of M ({:?})", ev);
                        w.violate("C20", "each delivered request leads to exactly one response to the node address it came from", "held-request-unanswerable", detail.clone());
                        w.violate("C14", "every request is answered", "held-request-unanswerable", detail);
                    }
                }
            }
        }
        // C02: a datagram presented from another source address than the one it was sent from is
        // never handed to the application (sessions are per address; each has its own keys)
        if let Ev::Ext(c) = ev {
            if c >> 24 == 4 && (c & 0xf) != 0 {
                w.count("replays_from_foreign_source");
                for raw in w.last_raw[V].clone() {
                    if let HandlerOut::Request(a, _) | HandlerOut::Response(a, _) = &raw {
                        w.violate("C02", "presenting a datagram from another source address never produces a delivered message", "foreign-source-accepted", format!("V handed a message to its application as coming from {} at {} after a recorded datagram was presented from that address ({:?})", w.name_of(&a.node_id), a.socket_addr, ev));
                    }
                }
            }
        }
        // harness-side fact for genuine handshakes of X delivered in this step
        let x_id = w.nodes[X].id;
        let x_pub = w.nodes[X].enr.public_key();
        for (to, kind, src, claimed, _) in w.delivered_now.clone() {
            if to == V && kind == 2 && claimed == Some(x_id) {
                // find the datagram and verify its signature under X's real key over the
                // challenge V had outstanding for (X, src) before the step
                if let Some(p) = &pre[V] {
                    if let Some(c) = p.challenges.iter().find(|c| c.addr.node_id == x_id && c.addr.socket_addr == src) {
                        for d in w.log.iter().rev().filter(|d| d.kind == 2 && d.dst == w.nodes[V].addr) {
                            if let Ok((pk, _)) = VPacket::decode(&w.nodes[V].id, &d.bytes) {
                                if let PacketKind::Handshake { src_id, id_nonce_sig, ephem_pubkey, .. } = pk.kind {
                                    if src_id == x_id && util::ref_verify_id_signature(&x_pub, &ephem_pubkey, c.challenge_data.as_ref(), &w.nodes[V].id, &id_nonce_sig) {
                                        w.proved.insert((x_id.raw(), src));
                                    }
                                }
                            }
                        }
                    }
                }
            }
        }
        // Initiator role: V dialled a contact and answered a WHOAREYOU arriving from the contact's
        // address. The session keys are bound to the contact's static key by ECDH, so creating
        // that session is legitimate; whether anything is later *attributed* to the contact is
        // checked against the true origin of the datagram below.
        let mut way_answered_now: Vec<([u8; 32], SocketAddr)> = vec![];
        if let Some(p) = &pre[V] {
            for (to, kind, src, _, nonce) in w.delivered_now.clone() {
                if to == V && kind == 1 {
                    for a in p.active_requests.iter().filter(|a| a.addr.socket_addr == src && a.nonce == nonce) {
                        w.initiated.insert((a.addr.node_id.raw(), a.addr.socket_addr));
                        way_answered_now.push((a.addr.node_id.raw(), a.addr.socket_addr));
                    }
                }
            }
        }
        // C01: effects that treat a remote party as node X
        let post = w.snap(V);
        if let Some(s) = &post {
            for sess in &s.sessions {
                let k = (sess.addr.node_id.raw(), sess.addr.socket_addr);
                let was = pre[V].as_ref().map(|p| p.sessions.iter().any(|x| x.addr == sess.addr && x.encryption_key == sess.encryption_key)).unwrap_or(false);
                if !was {
                    if w.proved.contains(&k) || w.initiated.contains(&k) {
                        w.count("legitimate_establishments");
                    } else {
                        w.violate("C01", "a session keyed to X exists only if that party answered this node's own WHOAREYOU with a signature verifying under the key whose hash is X", "session-without-proof", format!("V holds a new session for {} at {} after {:?}", w.name_of(&sess.addr.node_id), sess.addr.socket_addr, ev));
                    }
                }
            }
        }
        // true origins of what reached V in this step
        let origins: Vec<i32> = w.delivered_now.iter().zip(w.delivered_origin.iter()).filter(|(d, _)| d.0 == V).map(|(_, o)| *o).collect();
        for raw in w.last_raw[V].clone() {
            let named: Option<(NodeId, SocketAddr, &str)> = match &raw {
                HandlerOut::Established(enr, addr, _) => Some((enr.node_id(), *addr, "Established")),
                HandlerOut::UnverifiableEnr { node_id, socket, .. } => Some((*node_id, *socket, "UnverifiableEnr")),
                HandlerOut::Request(a, _) => Some((a.node_id, a.socket_addr, "Request")),
                HandlerOut::Response(a, _) => Some((a.node_id, a.socket_addr, "Response")),
                _ => None,
            };
            if let Some((id, addr, what)) = named {
                let holder_origin: i32 = if id == x_id { X as i32 } else { -1 };
                // Initiator role: `Established(.., Outgoing)` is issued by protocol design when V sends
                // its own handshake towards the key it dialled (before key confirmation); requests
                // and responses are attributed only if the datagram really came from the key holder.
                // (a WHOAREYOU for a request that did not initiate the session is answered the same
                // way but labelled Incoming: accepted in the very step that answered that WHOAREYOU)
                let outgoing_report = matches!(&raw, HandlerOut::Established(_, _, v::ConnectionDirection::Outgoing))
                    || (matches!(&raw, HandlerOut::Established(..)) && way_answered_now.contains(&(id.raw(), addr)));
                let by_initiation = w.initiated.contains(&(id.raw(), addr)) && (origins.contains(&holder_origin) || outgoing_report);
                if !w.proved.contains(&(id.raw(), addr)) && !by_initiation {
                    w.violate("C01", "requests, responses and session reports are attributed to X only after X proved its identity", &format!("attributed-without-proof:{what}"), format!("V reported {what} for {} at {addr} after {:?}", w.name_of(&id), ev));
                } else {
                    w.count("attributed_events_with_proof");
                }
            }
            // handler part of C12: an incoming session is reported as established only if the
            // record's UDP address equals the source address (or the record has none)
            if let HandlerOut::Established(enr, addr, v::ConnectionDirection::Incoming) = &raw {
                w.count("incoming_established");
                // (the endpoint of the family the packets came from; a record without one is accepted
                // by design — the handler-level grid of C12 states the same rule)
                let advertised: Option<SocketAddr> = match addr {
                    SocketAddr::V4(_) => enr.udp4_socket().map(SocketAddr::V4),
                    SocketAddr::V6(_) => enr.udp6_socket().map(SocketAddr::V6),
                };
                if let Some(s) = advertised {
                    if s != *addr {
                        w.violate("C12", "an incoming session admits a node only if the UDP address in its record equals the address its packets came from", "established-with-foreign-address", format!("record says {s}, packets came from {addr}"));
                    }
                }
                if enr.node_id() != m_id() && enr.node_id() != x_id {
                    w.violate("C12", "harness", "established-unknown", "unknown id".into());
                }
            }
            // C12: the service turns `Established` into a table entry; it is reported only for an identity
            // a session exists with (proved by a handshake, or dialled and keyed to it), never merely
            // because a validly signed record of it appeared in a NODES response
            if let HandlerOut::Established(enr, addr, _) = &raw {
                let k = (enr.node_id().raw(), *addr);
                if !w.proved.contains(&k) && !w.initiated.contains(&k) {
                    w.violate("C12", "a node becomes a routing-table entry only through an established session, never merely because its record appeared in a NODES response", "established-without-session", format!("V reported Established for {} at {addr} after {:?}; no session with that identity exists", w.name_of(&enr.node_id()), ev));
                }
            }
            if let HandlerOut::UnverifiableEnr { .. } = &raw {
                w.count("unverifiable_reports");
            }
        }
    }

    fn fingerprint_extra(&self, w: &World) -> u128 {
        mc::fp_of(&(w.proved.iter().map(|(i, a)| (*i, *a)).collect::<Vec<_>>(), w.scratch.len()))
    }
}

pub fn configs(thorough: bool) -> Vec<(String, HCfg)> {
    let m_enr = util::enr4(&m_key(), 1, m_addr());
    let base = |w: Vec<Req>, known_seq: u64| HCfg { extra_known: vec![e_record()], nodes: 2, workload: w, allow_drop: false, allow_dup: false, allow_reorder: false, allow_early_timer: false, ghost: Some((m_enr.clone(), m_addr(), true)), known_seq, ..Default::default() };
    let mut out = vec![
        ("x-silent".to_string(), base(vec![], 1)),
        ("x-known-seq5".to_string(), base(vec![], 5)),
        ("v-dials-m".to_string(), base(vec![Req { from: 0, to: 9, body: Body::Ping, with_enr: true }], 1)),
        ("v-dials-x".to_string(), base(vec![Req { from: 0, to: 1, body: Body::Ping, with_enr: true }], 1)),
        ("v-dials-m-noenr".to_string(), base(vec![Req { from: 0, to: 9, body: Body::Find(1), with_enr: false }], 1)),
        ("v-dials-x-noenr".to_string(), base(vec![Req { from: 0, to: 1, body: Body::Ping, with_enr: false }], 1)),
        // V re-sends an unanswered request once (request_retries = 2)
        ("v-dials-m-retries2".to_string(), HCfg { retries: 2, ..base(vec![Req { from: 0, to: 9, body: Body::Ping, with_enr: true }], 1) }),
        ("m-session-v-dials-m".to_string(), base(vec![Req { from: 0, to: 9, body: Body::Ping, with_enr: true }], 1)),
        // X loses its state between two requests of V: V re-keys its session in place (previous keys retained)
        // the crafted peer holds a session from one port and completes another handshake from a second
        // port of the same IP address
        ("m-two-ports".to_string(), base(vec![Req { from: 0, to: 8, body: Body::Ping, with_enr: false }], 1)),
        // the crafted peer has a session and its first request is still held by V's application
        ("m-session-request-held".to_string(), base(vec![], 1)),
        // X dials V; the application answers whenever it likes; X's own datagrams may be presented
        // again from M's address (C02: a datagram is bound to the address it came from)
        ("x-dials-v-replayed".to_string(), HCfg { free_app_timing: true, ..base(vec![Req { from: 1, to: 0, body: Body::Ping, with_enr: true }], 1) }),
        ("v-rekeys-x".to_string(), HCfg { allow_restart: vec![1], ..base(vec![Req { from: 0, to: 1, body: Body::Ping, with_enr: true }, Req { from: 0, to: 1, body: Body::Talk, with_enr: true }], 1) }),
    ];
    if thorough {
        out.push(("x-dials-v".to_string(), base(vec![Req { from: 1, to: 0, body: Body::Ping, with_enr: true }], 1)));
        out.push(("v-dials-both".to_string(), base(vec![Req { from: 0, to: 9, body: Body::Talk, with_enr: true }, Req { from: 0, to: 1, body: Body::Ping, with_enr: false }], 1)));
    }
    out
}

/// Scripted events executed before the explored history of a world (not charged to the budget).
pub fn prefix_of(world: &str) -> Vec<Ev> {
    match world {
        // the crafted peer M has completed a genuine handshake of its own with V (V holds keys K1
        // as the recipient) and got its PING answered, before V dials M
        "m-session-v-dials-m" => vec![Ev::Ext(code(1, 1 << 8)), Ev::AnsWay(0, true), Ev::Deliver(0), Ev::Ext(code(2, 1 << 12 | 1 << 8)), Ev::Respond(0)],
        // M's session from its first port, and a PING of M under that session answered by V
        "m-two-ports" => vec![Ev::Ext(code(1, 1 << 8)), Ev::AnsWay(0, true), Ev::Deliver(0), Ev::Ext(code(2, 1 << 12 | 1 << 8)), Ev::Respond(0), Ev::Ext(code(8, 0)), Ev::Respond(0)],
        "m-session-request-held" => vec![Ev::Ext(code(1, 1 << 8)), Ev::AnsWay(0, true), Ev::Deliver(0), Ev::Ext(code(2, 1 << 12 | 1 << 8))],
        _ => vec![],
    }
}

pub fn driver(thorough: bool) -> Attack {
    Attack { handshake_records: if thorough { vec![0, 1, 2, 3, 4, 5, 6, 7] } else { vec![0, 1, 2, 3, 5, 6, 7] }, handshake_sigs: if thorough { vec![0, 1, 2, 3] } else { vec![0, 1, 2] }, replays: true, ways: true, msgs: true, halves: thorough, compat: thorough, two_ports: false, replay_msgs: false }
}

pub fn regression_holds(payload: &serde_json::Value, prop: &str) -> bool {
    let name = payload["workload"].as_str().unwrap_or("");
    let hist = crate::hsim::parse_history(payload["history"].as_str().unwrap_or("[]"));
    let cfgs = configs(true);
    let cfg = match cfgs.iter().find(|(n, _)| n == name) {
        Some((_, c)) => c.clone(),
        None => return true,
    };
    let monitors = Monitors { c03: prop == "C03", c04: prop == "C04", c13: prop == "C13", c15: false, c19: false, c20: prop == "C14" || prop == "C20" };
    let mut d = driver(true);
    d.two_ports = name == "m-two-ports";
    d.replay_msgs = name == "x-dials-v-replayed";
    rt::run(run_history_with(&cfg, monitors, &hist, true, &d)).violation.is_none()
}

pub fn replay(payload: &serde_json::Value, prop: &str) {
    let name = payload["workload"].as_str().unwrap_or("");
    let hist = crate::hsim::parse_history(payload["history"].as_str().unwrap_or("[]"));
    let cfgs = configs(true);
    let cfg = match cfgs.iter().find(|(n, _)| n == name) {
        Some((_, c)) => c.clone(),
        None => mc::machinery(&format!("unknown attack configuration {name}")),
    };
    let monitors = Monitors { c03: prop == "C03", c04: prop == "C04", c13: prop == "C13", c15: false, c19: false, c20: prop == "C14" || prop == "C20" };
    let mut d = driver(true);
    d.two_ports = name == "m-two-ports";
    d.replay_msgs = name == "x-dials-v-replayed";
    rt::run(crate::hsim::replay_verbose(&cfg, monitors, &hist, &d));
}

/// Runs the attacker worlds and returns (stats, violations for `prop`).
pub fn explore(prop: &str, thorough: bool, budget_s: f64, k_max: u32) -> (mc::Stats, Vec<mc::Violation>, Vec<serde_json::Value>) {
    // (C01 speaks of this node's own *fresh* WHOAREYOU: it reads C03's expired-challenge clause)
    let monitors = Monitors { c03: prop == "C03" || prop == "C01", c04: prop == "C04", c13: prop == "C13", c15: false, c19: prop == "C19", c20: prop == "C14" || prop == "C20" };
    let mut d = driver(thorough);
    // partial passing of a challenge lifetime matters to the expiry clause of C03
    d.halves = thorough || prop == "C03";
    let halves_world = |n: &str| thorough || n == "x-silent" || n == "v-dials-m";
    let mut cfgs = configs(thorough);
    if prop == "C19" {
        // nonce reuse under replayed / repeated handshakes: the crafted peer alone, genuine
        // handshakes with a verifiable and an unverifiable record, garbage, replays; worst-case RNG
        d = Attack { handshake_records: vec![1, 3], handshake_sigs: vec![0], replays: true, ways: false, msgs: true, halves: false, compat: false, two_ports: false, replay_msgs: false };
        cfgs.retain(|(n, _)| n == "x-silent" || (thorough && n == "v-dials-m"));
        for (_, c) in cfgs.iter_mut() {
            c.force_nonce = true;
        }
    }
    let start = clock::wall();
    let per = budget_s / cfgs.len() as f64;
    let mut total = mc::Stats { states: 0, transitions: 0, executions: 0, steps: 0, max_depth: 0, distinct_terminals: 0, counters: BTreeMap::new(), exhaustive: true, cap: None, per_budget: vec![] };
    let mut found = vec![];
    let mut samples = vec![];
    // Iterated bound: every world with at most 2 attacker moves (always completed), then every
    // world again with 3, 4, … moves under the remaining wall budget, shared fairly; the highest
    // bound completed in all worlds is reported.
    let passes: Vec<u32> = if k_max > 2 { (2..=k_max).collect() } else { vec![k_max] };
    let mut completed_bound = 0u32;
    let _ = per;
    for (pi, k) in passes.iter().enumerate() {
        let mut pass_complete = true;
        for (ci, (name, cfg)) in cfgs.iter().enumerate() {
            let left = budget_s - (clock::wall() - start);
            let remaining = if pi == 0 { budget_s.max(30.0) } else { left / (cfgs.len() - ci) as f64 };
            if remaining < 0.5 {
                pass_complete = false;
                total.exhaustive = false;
                total.cap = Some(format!("wall budget exhausted in the pass with bound {k}"));
                break;
            }
            // (the two-port world has a handful of moves: one more than the common bound)
            let limits = Limits { max_budget: if name == "m-two-ports" { *k + 1 } else { *k }, max_depth: 60, max_states: 2_000_000, wall_s: remaining };
            let mut vio = vec![];
            let mut smp = vec![];
            let m = monitors.clone();
            // the re-key world is about what V accepts under retained / degenerate keys: attacker
            // messages and replays only; it is part of the identity / authenticity checks
            if name == "v-rekeys-x" && !thorough && prop != "C01" && prop != "C02" {
                continue;
            }
            // quick tier: the world in which V knows a newer record of X is part of the identity check
            if name == "x-known-seq5" && !thorough && prop != "C01" {
                continue;
            }
            if name == "m-two-ports" && prop != "C02" {
                continue;
            }
            if name == "x-dials-v-replayed" && prop != "C02" {
                continue;
            }
            if name == "m-session-request-held" && prop != "C20" && prop != "C14" {
                continue;
            }
            // worlds added for one mechanism each get the moves that mechanism needs (quick tier)
            let d_world = if name == "x-dials-v-replayed" {
                Attack { handshake_records: vec![], handshake_sigs: vec![], replays: true, ways: false, msgs: false, halves: false, replay_msgs: true, ..d.clone() }
            } else if name == "m-session-request-held" {
                Attack { handshake_records: vec![1], handshake_sigs: vec![0], replays: false, ways: false, msgs: true, halves: false, ..d.clone() }
            } else if name == "m-two-ports" {
                // hellos and a genuine handshake from the second port, M's recorded datagrams from there
                Attack { handshake_records: vec![1], handshake_sigs: vec![0], replays: false, ways: false, msgs: true, halves: false, two_ports: true, ..d.clone() }
            } else if name == "v-rekeys-x" {
                Attack { handshake_records: vec![], handshake_sigs: vec![], ways: false, halves: false, ..d.clone() }
            } else if name == "v-dials-m-retries2" && !thorough {
                // forged WHOAREYOUs around a retransmission
                Attack { handshake_records: vec![], handshake_sigs: vec![], replays: false, msgs: false, halves: false, ..d.clone() }
            } else if name == "m-session-v-dials-m" && !thorough {
                // forged WHOAREYOUs and replays on top of a session the crafted peer established itself
                // (its scripted prefix uses M's hello and M's genuine handshake with its seq-1 record)
                Attack { handshake_records: vec![1], handshake_sigs: vec![0], halves: false, ..d.clone() }
            } else if !halves_world(name) {
                Attack { halves: false, ..d.clone() }
            } else {
                d.clone()
            };
            let d = &d_world;
            // only the clauses read for this property (C02 reads C01's attribution clause)
            let mut cfg = cfg.clone();
            cfg.focus = match prop {
                // (only the attribution clauses of C01: any other C01 clause would end the search at a
                // state that C02 does not report, and hide what lies behind it)
                "C02" => vec!["C02".to_string(), "C01:attributed-without-proof:Request".to_string(), "C01:attributed-without-proof:Response".to_string()],
                "C01" => vec!["C01".to_string(), "C03:expired-challenge-accepted".to_string()],
                _ => vec![prop.to_string()],
            };
            let cfg = &cfg;
            let prefix = prefix_of(name);
            let stats = mc::explore(
                &limits,
                |h: &[Ev]| {
                    let full: Vec<Ev> = prefix.iter().cloned().chain(h.iter().cloned()).collect();
                    rt::run(run_history_with(cfg, m.clone(), &full, true, d))
                },
                |v, _| vio.push(v),
                |h, o| {
                let _ = o;
                smp.push(format!("{:?}", h));
            });
            // the deeper pass re-visits what the first pass saw: count its states only
            if pi + 1 == passes.len() {
                total.states += stats.states;
                total.transitions += stats.transitions;
                total.distinct_terminals += stats.distinct_terminals;
            }
            total.executions += stats.executions;
            total.steps += stats.steps;
            total.max_depth = total.max_depth.max(stats.max_depth);
            for (k, v) in stats.counters {
                *total.counters.entry(k).or_insert(0) += v;
            }
            if !stats.exhaustive {
                pass_complete = false;
                total.exhaustive = false;
                total.cap = Some(format!("{name} (bound {k}): {}", stats.cap.unwrap_or_default()));
            }
            if pi + 1 == passes.len() {
                if let Some(s) = smp.into_iter().last() {
                    samples.push(json!({"world":name,"history":s}));
                }
            }
            for mut v in vio {
                // C02 reads the attribution clause of the same oracle: a request / response handed to
                // the application as coming from P that P's side never encrypted
                let also: Vec<String> = v.replay["also"].as_array().map(|a| a.iter().filter_map(|x| x.as_str().map(|s| s.to_string())).collect()).unwrap_or_default();
                let attributed = also.iter().chain(std::iter::once(&v.key)).find(|k| k.starts_with("C01:attributed-without-proof:Request") || k.starts_with("C01:attributed-without-proof:Response")).cloned();
                if prop == "C01" && v.key == "C03:expired-challenge-accepted" {
                    v.key = "C01:stale-challenge-answered".into();
                    v.clause = "a party is treated as node X only if it answered this node's own fresh WHOAREYOU".into();
                }
                if let (true, Some(k)) = (prop == "C02", attributed) {
                    v.key = k.replace("C01:attributed-without-proof", "C02:forged-attribution");
                    v.clause = "every request or response handed to the application as coming from peer P was encrypted by P's side under keys of a handshake P completed with this node".into();
                }
                if v.key.starts_with(&format!("{prop}:")) || v.key.starts_with("panic:") {
                    v.replay["workload"] = json!(name);
                v.replay["engine"] = json!("hsim");
                    v.replay["driver"] = json!("attack");
                    found.push(v);
                }
            }
        }
        if pass_complete {
            completed_bound = *k;
        }
        if !found.is_empty() {
            break;
        }
    }
    total.counters.insert("attacker_bound_completed_in_all_worlds", completed_bound as u64);
    (total, found, samples)
}

pub fn run_c01() {
    let mut rep = Report::new("C01", "model_checking");
    let thorough = rep.thorough();
    let k: u32 = std::env::var("VERIF_K").ok().and_then(|v| v.parse().ok()).unwrap_or(if thorough { 5 } else { 3 });
    let (stats, found, samples) = explore("C01", thorough, mc::budget(thorough, 60.0, 1.0), k);
    rep.set("states", stats.states);
    rep.set("transitions", stats.transitions);
    rep.set("traces_validated_against_impl", stats.executions);
    rep.set("handler_steps_executed", stats.steps);
    rep.set("evaluations", stats.executions);
    rep.set("distinct_nontrivial", stats.states);
    rep.set("attacker_move_bound_K", k as u64);
    // service level: a who-are-you query (any unauthenticated packet claiming X's id causes one)
    // changes nothing about X
    let (queries, svc) = crate::ssim::c01_service_level();
    rep.set("service_level_whoareyou_queries", queries);
    let found: Vec<mc::Violation> = found.into_iter().chain(svc.into_iter()).collect();
    rep.set("exhaustive", stats.exhaustive);
    if let Some(c) = &stats.cap {
        rep.set("cap", c.clone());
    }
    for (k, v) in &stats.counters {
        rep.set(&format!("activations_{k}"), *v);
    }
    for s in samples {
        rep.sample(s);
    }
    rep.set("rule", "explicit-state BFS over histories on a real victim handler V, a real genuine peer X and a crafted attacker M (own key, own address, sees the wire): attacker moves = message claiming id X or M from M's or X's address; handshake answering V's current WHOAREYOU with claimed id × attached record {none, M's seq 1 / seq 9 / with X's address / without address, X's genuine record} × signature {k_M over the right challenge, over a stale one, zero bytes(, empty)}; forged WHOAREYOU for any request V has in flight; replay of any handshake / WHOAREYOU seen, from the original or M's address; answers to V's requests. Each attacker move costs one unit of the budget K; genuine traffic follows the default policy in between. Oracle: harness-side fact proved(id, address) vs. sessions in V's bookkeeping and events V reports");
    rep.assume("symbolic attacker: computes from keys it holds, replays, redirects, forges with the crate's own primitives; guesses nothing (cryptographic strength of secp256k1 / AES-GCM / HKDF assumed)");
    rep.assume("routing-table effects are observed at the handler boundary (Established / UnverifiableEnr / Request / Response events are what the service turns into table changes)");
    if rep.samples.is_empty() {
        rep.sample(json!({"note":"none"}));
    }
    for v in found {
        rep.violation(v);
    }
    for k in ["legitimate_establishments", "attributed_events_with_proof"] {
        if stats.counters.get(k).copied().unwrap_or(0) == 0 {
            rep.vacuous(&format!("C01 vacuous: positive control {k} = 0"));
        }
    }
    rep.finish();
}
