//! Engine `filter`: C18 on the real `Limiter`, `RateLimiter` and packet `Filter`.
use crate::clock;
use crate::mc::{self, Report, Violation};
use crate::util;
use discv5::enr::NodeId;
use discv5::verif::{self as v, Limiter};
use discv5::{NodeAddress, PermitBanList, RateLimiterBuilder};
use serde_json::json;
use std::collections::{BTreeMap, HashMap, HashSet, VecDeque};
use std::net::{IpAddr, SocketAddr};
use std::time::{Duration, Instant};

/* ------------------------------------------------------------------------------------ */
/* Part A: Limiter vs. exact token bucket (explicit-state BFS, cloned states)            */
/* ------------------------------------------------------------------------------------ */

/// Time unit: half a token period.
const HALF: u64 = 500_000_000;

#[derive(Clone, Copy, Debug, PartialEq, Eq, Hash)]
enum LEv {
    Arrive(u8),
    WaitHalf,
    WaitFull,
    Prune,
}

/// Reference: classic token bucket in half-token units. `level[k]` ∈ [0, 2n] half-tokens.
#[derive(Clone, Debug, PartialEq, Eq, Hash)]
struct Bucket {
    n: u64,
    level: BTreeMap<u8, (u64, u64)>, // key -> (half-tokens, time of last update in HALF units)
}

impl Bucket {
    fn allows(&mut self, key: u8, now: u64) -> bool {
        let cap = 2 * self.n;
        let e = self.level.entry(key).or_insert((cap, now));
        let lvl = (e.0 + (now - e.1)).min(cap);
        if lvl >= 2 {
            *e = (lvl - 2, now);
            true
        } else {
            *e = (lvl, now);
            false
        }
    }
    fn normalized(&self, now: u64) -> Vec<(u8, u64)> {
        let cap = 2 * self.n;
        self.level.iter().map(|(k, (l, t))| (*k, (l + (now - t)).min(cap))).filter(|(_, l)| *l < cap).collect()
    }
}

fn limiter_tats(l: &Limiter<u8>) -> Vec<(u8, u64)> {
    // `Limiter` derives Debug: "... tat_per_key: {1: 123, 2: 456} }"
    let s = format!("{:?}", l);
    let i = s.find("tat_per_key: {").expect("debug format") + "tat_per_key: {".len();
    let j = s[i..].find('}').unwrap() + i;
    let mut v: Vec<(u8, u64)> = s[i..j]
        .split(", ")
        .filter(|x| !x.is_empty())
        .map(|kv| {
            let mut it = kv.split(": ");
            (it.next().unwrap().trim().parse().unwrap(), it.next().unwrap().trim().parse().unwrap())
        })
        .collect();
    v.sort();
    v
}

struct LState {
    lim: Limiter<u8>,
    refm: Bucket,
    now: u64, // in HALF units
    hist: Vec<LEv>,
}

fn limiter_search(n: u64, depth: usize, rep: &mut Report, problems: &mut Vec<Violation>) -> (u64, u64) {
    let tau = Duration::from_nanos(2 * HALF * n);
    let mk = || Limiter::<u8>::from_quota(v::quota(n, tau)).expect("quota");
    let mut seen: HashSet<u128> = HashSet::new();
    let mut frontier = VecDeque::new();
    frontier.push_back(LState { lim: mk(), refm: Bucket { n, level: BTreeMap::new() }, now: 0, hist: vec![] });
    let (mut states, mut trans) = (0u64, 0u64);
    let mut refusals = 0u64;
    let mut pruned_entries = 0u64;
    while let Some(st) = frontier.pop_front() {
        if st.hist.len() >= depth {
            continue;
        }
        for ev in [LEv::Arrive(1), LEv::Arrive(2), LEv::WaitHalf, LEv::WaitFull, LEv::Prune] {
            let mut lim = st.lim.clone();
            let mut refm = st.refm.clone();
            let mut now = st.now;
            let mut hist = st.hist.clone();
            hist.push(ev);
            trans += 1;
            match ev {
                LEv::Arrive(k) => {
                    let got = lim.allows(Duration::from_nanos(now * HALF), &k, 1).is_ok();
                    let want = refm.allows(k, now);
                    if !want {
                        refusals += 1;
                    }
                    if got != want {
                        problems.push(Violation {
                            clause: if got { "the number let through never exceeds burst + rate × window".into() } else { "traffic within its quota is never refused".into() },
                            key: format!("limiter:{}", if got { "over-admission" } else { "false-refusal" }),
                            detail: format!("burst {n}: limiter says {got}, token bucket says {want} after {:?}", hist),
                            replay: json!({"engine":"filter","part":"limiter","burst":n,"history":format!("{:?}",hist)}),
                        });
                        return (states, trans);
                    }
                }
                LEv::WaitHalf => now += 1,
                LEv::WaitFull => now += 2 * n,
                LEv::Prune => {
                    let before = lim.verif_len();
                    lim.prune(Duration::from_nanos(now * HALF));
                    pruned_entries += (before - lim.verif_len()) as u64;
                }
            }
            // fingerprint: implementation state relative to now + reference state
            let impl_state: Vec<(u8, u64)> = limiter_tats(&lim).into_iter().map(|(k, tat)| (k, tat.saturating_sub(now * HALF))).filter(|(_, r)| *r > 0).collect();
            let fp = mc::fp_of(&(impl_state, refm.normalized(now), hist.len()));
            if seen.insert(fp) {
                states += 1;
                if states % 50_000 == 1 && rep.samples.len() < 3 {
                    rep.sample(json!({"part":"limiter","burst":n,"history":format!("{:?}",hist)}));
                }
                frontier.push_back(LState { lim, refm, now, hist });
            }
        }
    }
    rep.add("limiter_refusals", refusals);
    rep.add("limiter_pruned_entries", pruned_entries);
    (states, trans)
}

/// Part B: full path enumeration (no state merging): window bound on the pass log and
/// prune-differential (the same arrivals without the prune events give the same decisions).
fn limiter_paths(n: u64, depth: usize, problems: &mut Vec<Violation>) -> u64 {
    let tau = Duration::from_nanos(2 * HALF * n);
    let evs = [LEv::Arrive(1), LEv::Arrive(2), LEv::WaitHalf, LEv::WaitFull, LEv::Prune];
    let total = (evs.len() as u64).pow(depth as u32);
    let idxs: Vec<u64> = (0..total).collect();
    let chunks: Vec<Vec<u64>> = idxs.chunks(20_000).map(|c| c.to_vec()).collect();
    let results = mc::par_map(&chunks, |chunk| {
        let mut bad = None;
        for code in chunk {
            let mut c = *code;
            let mut path = vec![];
            for _ in 0..depth {
                path.push(evs[(c % 5) as usize]);
                c /= 5;
            }
            if !path.contains(&LEv::Prune) && path.iter().filter(|e| matches!(e, LEv::Arrive(_))).count() < 2 {
                continue;
            }
            let run = |with_prune: bool| {
                let mut lim = Limiter::<u8>::from_quota(v::quota(n, tau)).unwrap();
                let mut now = 0u64;
                let mut decisions = vec![];
                let mut passes: HashMap<u8, Vec<u64>> = HashMap::new();
                for e in &path {
                    match e {
                        LEv::Arrive(k) => {
                            let ok = lim.allows(Duration::from_nanos(now * HALF), k, 1).is_ok();
                            decisions.push(ok);
                            if ok {
                                passes.entry(*k).or_default().push(now);
                            }
                        }
                        LEv::WaitHalf => now += 1,
                        LEv::WaitFull => now += 2 * n,
                        LEv::Prune => {
                            if with_prune {
                                lim.prune(Duration::from_nanos(now * HALF))
                            }
                        }
                    }
                }
                (decisions, passes)
            };
            let (d1, passes) = run(true);
            let (d2, _) = run(false);
            if d1 != d2 {
                bad = Some(Violation { clause: "periodic pruning does not change any decision".into(), key: "limiter:prune-differential".into(), detail: format!("burst {n}: {:?}: {:?} with pruning, {:?} without", path, d1, d2), replay: json!({"engine":"filter","part":"limiter-paths","burst":n,"path":format!("{:?}",path)}) });
                break;
            }
            for (_k, ts) in passes {
                for i in 0..ts.len() {
                    for j in i..ts.len() {
                        let window_half = ts[j] - ts[i];
                        let count = (j - i + 1) as u64;
                        if count > n + window_half / 2 {
                            bad = Some(Violation { clause: "the number let through in any window never exceeds burst + rate × window".into(), key: "limiter:window".into(), detail: format!("burst {n}: {count} passes within {} half-periods in {:?}", window_half, path), replay: json!({"engine":"filter","part":"limiter-paths","burst":n,"path":format!("{:?}",path)}) });
                        }
                    }
                }
            }
            if bad.is_some() {
                break;
            }
        }
        bad
    });
    for r in results.into_iter().flatten() {
        if problems.len() < 5 {
            problems.push(r);
        }
    }
    total
}

/* ------------------------------------------------------------------------------------ */
/* Part C: the packet Filter with ban / permit lists (process-global list ⇒ one thread)   */
/* ------------------------------------------------------------------------------------ */

#[derive(Clone, Copy, Debug, PartialEq, Eq, Hash)]
enum FEv {
    Arrive(u8, u8), // ip index, node index
    WaitHalf,
    WaitLong,
    Prune,
}

struct FCfg {
    lists: u8, // bit0 ip0 banned, bit1 ip0 permitted, bit2 node0 banned, bit3 node0 permitted
    ip_n: u64,
    node_n: u64,
    total_n: u64,
}

#[derive(Clone, Debug, PartialEq, Eq, Hash)]
struct FRef {
    ip: Bucket,
    node: Bucket,
    total: Bucket,
    banned_ips: Vec<u8>,
    banned_nodes: Vec<u8>,
}

fn ips() -> [IpAddr; 2] {
    ["192.0.2.1".parse().unwrap(), "192.0.2.2".parse().unwrap()]
}
fn nodes() -> [NodeId; 2] {
    [util::node_id(&util::key(31)), util::node_id(&util::key(32))]
}

const BAN: Duration = Duration::from_secs(100);

struct FWorld {
    filter: v::VFilter,
    refm: FRef,
    t0: Instant,
    half: u64,
}

fn initial_lists(cfg: &FCfg) -> PermitBanList {
    let mut l = PermitBanList::default();
    if cfg.lists & 1 != 0 {
        l.ban_ips.insert(ips()[0], None);
    }
    if cfg.lists & 2 != 0 {
        l.permit_ips.insert(ips()[0]);
    }
    if cfg.lists & 4 != 0 {
        l.ban_nodes.insert(nodes()[0], None);
    }
    if cfg.lists & 8 != 0 {
        l.permit_nodes.insert(nodes()[0]);
    }
    l
}

impl FWorld {
    fn new(cfg: &FCfg) -> Self {
        v::ban_list_set(initial_lists(cfg));
        // (a quota of one token goes through the builder's `*_one_every` methods)
        let mut b = RateLimiterBuilder::new();
        b = if cfg.total_n == 1 { b.total_one_every(Duration::from_nanos(2 * HALF)) } else { b.total_n_every(cfg.total_n, Duration::from_nanos(2 * HALF * cfg.total_n)) };
        b = if cfg.ip_n == 1 { b.ip_one_every(Duration::from_nanos(2 * HALF)) } else { b.ip_n_every(cfg.ip_n, Duration::from_nanos(2 * HALF * cfg.ip_n)) };
        b = if cfg.node_n == 1 { b.node_one_every(Duration::from_nanos(2 * HALF)) } else { b.node_n_every(cfg.node_n, Duration::from_nanos(2 * HALF * cfg.node_n)) };
        let rl = b.build().unwrap();
        let filter = v::VFilter::new(true, Some(rl), None, None, Some(BAN));
        let mut banned_ips = vec![];
        let mut banned_nodes = vec![];
        if cfg.lists & 1 != 0 {
            banned_ips.push(0);
        }
        if cfg.lists & 4 != 0 {
            banned_nodes.push(0);
        }
        FWorld {
            filter,
            refm: FRef { ip: Bucket { n: cfg.ip_n, level: BTreeMap::new() }, node: Bucket { n: cfg.node_n, level: BTreeMap::new() }, total: Bucket { n: cfg.total_n, level: BTreeMap::new() }, banned_ips, banned_nodes },
            t0: Instant::now(),
            half: 0,
        }
    }

    /// Reference semantics of the two stages; returns (passes stage 1, passes stage 2).
    fn ref_arrive(&mut self, cfg: &FCfg, ip: u8, node: u8) -> (bool, bool) {
        let now = self.half;
        let ip_permitted = ip == 0 && cfg.lists & 2 != 0;
        let node_permitted = node == 0 && cfg.lists & 8 != 0;
        let s1 = if ip_permitted {
            true
        } else if self.refm.banned_ips.contains(&ip) {
            false
        } else if !self.refm.ip.allows(ip, now) {
            self.refm.banned_ips.push(ip);
            false
        } else {
            self.refm.total.allows(0, now)
        };
        if !s1 {
            return (false, false);
        }
        let s2 = if node_permitted {
            true
        } else if self.refm.banned_nodes.contains(&node) {
            false
        } else if !self.refm.node.allows(node, now) {
            self.refm.banned_nodes.push(node);
            false
        } else {
            true
        };
        (true, s2)
    }

    fn step(&mut self, cfg: &FCfg, ev: &FEv, hist: &[FEv]) -> Result<(), Violation> {
        let mk = |clause: &str, key: &str, detail: String| Violation { clause: clause.into(), key: key.into(), detail, replay: json!({"engine":"filter","part":"filter","lists":cfg.lists,"quotas":[cfg.ip_n,cfg.node_n,cfg.total_n],"history":format!("{:?}",hist)}) };
        match ev {
            FEv::Arrive(i, n) => {
                let src = SocketAddr::new(ips()[*i as usize], 30303);
                let addr = NodeAddress { socket_addr: src, node_id: nodes()[*n as usize] };
                let before = v::ban_list_snapshot();
                let g1 = self.filter.initial_pass(&src);
                let g2 = if g1 { self.filter.final_pass(&addr) } else { false };
                let (w1, w2) = self.ref_arrive(cfg, *i, *n);
                if g1 != w1 {
                    return Err(mk(
                        if g1 { "an unsolicited datagram is dropped at the IP stage if its IP is banned (and not permitted) or over quota" } else { "a permitted IP / traffic within quota always passes the IP stage" },
                        &format!("filter:ip-stage:{}", if g1 { "passed" } else { "dropped" }),
                        format!("ip {i} node {n}: filter {g1}, reference {w1}"),
                    ));
                }
                if g2 != w2 {
                    return Err(mk(
                        if g2 { "an unsolicited datagram is dropped at the node stage if its node id is banned (and not permitted) or over quota" } else { "a permitted node id / traffic within quota always passes the node stage" },
                        &format!("filter:node-stage:{}", if g2 { "passed" } else { "dropped" }),
                        format!("ip {i} node {n}: filter {g2}, reference {w2}"),
                    ));
                }
                // bans: exactly the reference's, each lasting at least the configured duration
                let after = v::ban_list_snapshot();
                let now = Instant::now();
                for (k, ip) in ips().iter().enumerate() {
                    let want = self.refm.banned_ips.contains(&(k as u8));
                    let got = after.ban_ips.get(ip);
                    if want != got.is_some() {
                        return Err(mk("a sender that exceeds its per-IP quota is banned", "filter:ip-ban-list", format!("ip {k}: banned={} expected {want}", got.is_some())));
                    }
                    if let (Some(Some(exp)), false) = (got, before.ban_ips.contains_key(ip)) {
                        if *exp < now + BAN {
                            return Err(mk("a ban lasts at least the configured duration", "filter:ip-ban-duration", format!("ip {k}")));
                        }
                    }
                }
                for (k, id) in nodes().iter().enumerate() {
                    let want = self.refm.banned_nodes.contains(&(k as u8));
                    let got = after.ban_nodes.get(id);
                    if want != got.is_some() {
                        return Err(mk("a sender that exceeds its per-node quota is banned", "filter:node-ban-list", format!("node {k}: banned={} expected {want}", got.is_some())));
                    }
                    if let (Some(Some(exp)), false) = (got, before.ban_nodes.contains_key(id)) {
                        if *exp < now + BAN {
                            return Err(mk("a ban lasts at least the configured duration", "filter:node-ban-duration", format!("node {k}")));
                        }
                    }
                }
            }
            FEv::WaitHalf => {
                clock::advance(Duration::from_nanos(HALF));
                self.half += 1;
            }
            FEv::WaitLong => {
                // shorter than the ban duration: bans must still hold afterwards
                clock::advance(Duration::from_nanos(HALF * 20));
                self.half += 20;
            }
            FEv::Prune => self.filter.prune_limiter(),
        }
        let _ = self.t0;
        Ok(())
    }
}

fn filter_search(cfg: &FCfg, depth: usize, problems: &mut Vec<Violation>) -> (u64, u64, u64) {
    // history-replay BFS (the Filter is not Clone); single-threaded because of the global list
    let evs = [FEv::Arrive(0, 0), FEv::Arrive(0, 1), FEv::Arrive(1, 0), FEv::Arrive(1, 1), FEv::WaitHalf, FEv::WaitLong, FEv::Prune];
    let mut seen: HashSet<u128> = HashSet::new();
    let mut frontier: Vec<Vec<FEv>> = vec![vec![]];
    let (mut states, mut trans, mut execs) = (0u64, 0u64, 0u64);
    for _d in 0..depth {
        let mut next = vec![];
        for h in &frontier {
            for ev in &evs {
                let mut hist = h.clone();
                hist.push(*ev);
                trans += 1;
                execs += 1;
                let mut w = FWorld::new(cfg);
                let mut failed = false;
                for (i, e) in hist.iter().enumerate() {
                    if let Err(v) = w.step(cfg, e, &hist[..=i]) {
                        if problems.len() < 5 {
                            problems.push(v);
                        }
                        failed = true;
                        break;
                    }
                }
                if failed {
                    continue;
                }
                // the limiter inside the filter is not observable: pruning is the one event without an effect
                // on the reference, so "pruned since the last other event" is part of the state (without
                // it the state after a prune is merged with the one before and never expanded)
                let just_pruned = matches!(hist.last(), Some(FEv::Prune));
                let fp = mc::fp_of(&(w.refm.ip.normalized(w.half), w.refm.node.normalized(w.half), w.refm.total.normalized(w.half), &w.refm.banned_ips, &w.refm.banned_nodes, just_pruned));
                if seen.insert(fp) {
                    states += 1;
                    next.push(hist);
                }
            }
        }
        frontier = next;
        if !problems.is_empty() {
            break;
        }
    }
    (states, trans, execs)
}

/* ------------------------------------------------------------------------------------ */
/* Part D: the receive path of a real handler (exemption bypass, both filter stages)     */
/* ------------------------------------------------------------------------------------ */

#[derive(Clone, Copy, Debug, PartialEq, Eq, Hash)]
enum REv {
    Arrive(u8, u8),
    /// an unsolicited datagram of the handshake kind (answers no WHOAREYOU): filtered and charged
    /// like any other; whether it reached the handler is not observable, its effect on the quotas is
    ArriveHs(u8, u8),
    /// the node itself sends a request to the peer at ip 0 (its address becomes exempt)
    Dial,
    WaitHalf,
}

async fn recv_world(lists: u8, hist: &[REv]) -> Result<(u128, u64), Violation> {
    use crate::hsim::{Body, Driver, Ev, HCfg, Monitors, NoDriver, Req, World};
    let quotas = (2u64, 1u64, 3u64);
    let fcfg = FCfg { lists, ip_n: quotas.0, node_n: quotas.1, total_n: quotas.2 };
    let ghost_key = util::key(33);
    let ghost_addr = SocketAddr::new(ips()[0], 30303);
    let ghost = util::enr4(&ghost_key, 1, ghost_addr);
    let cfg = HCfg { nodes: 1, workload: vec![Req { from: 0, to: 9, body: Body::Ping, with_enr: true }], packet_filter: true, rate_limits: Some(quotas), ghost: Some((ghost, ghost_addr, true)), ..Default::default() };
    let monitors = Monitors { c03: false, c04: false, c13: false, c15: false, c19: false, c20: false };
    // the handler reads the process-global list
    v::ban_list_set(initial_lists(&fcfg));
    let mut w = World::build(&cfg, monitors).await;
    let d: &dyn Driver = &NoDriver;
    let mut refm = FRef { ip: Bucket { n: quotas.0, level: BTreeMap::new() }, node: Bucket { n: quotas.1, level: BTreeMap::new() }, total: Bucket { n: quotas.2, level: BTreeMap::new() }, banned_ips: if lists & 1 != 0 { vec![0] } else { vec![] }, banned_nodes: if lists & 4 != 0 { vec![0] } else { vec![] } };
    let mut half = 0u64;
    let mut exempt_hits = 0u64;
    let mk = |clause: &str, key: &str, detail: String| Violation { clause: clause.into(), key: key.into(), detail, replay: json!({"engine":"filter","part":"receive-path","lists":lists,"history":format!("{:?}",hist)}) };
    for (step, ev) in hist.iter().enumerate() {
        match ev {
            REv::Arrive(i, n) | REv::ArriveHs(i, n) => {
                let is_hs = matches!(ev, REv::ArriveHs(..));
                let src = SocketAddr::new(ips()[*i as usize], 30303);
                let exempt = w.nodes[0].wire.exemptions().iter().any(|(a, _)| *a == src);
                let mut p = v::VPacket::new_random(&nodes()[*n as usize]);
                if is_hs {
                    p.kind = discv5::packet::PacketKind::Handshake { src_id: nodes()[*n as usize], id_nonce_sig: vec![7; 64], ephem_pubkey: vec![2; 33], enr_record: None };
                }
                let bytes = p.clone().encode(&w.nodes[0].id);
                for e in w.last_raw.iter_mut() {
                    e.clear();
                }
                w.deliver_raw(0, src, &bytes, 0, p.message_nonce, -1).await;
                w.absorb().await;
                let passed = w.last_raw[0].iter().any(|r| matches!(r, discv5::verif::HandlerOut::WhoAreYou(_)));
                let want = if exempt {
                    exempt_hits += 1;
                    true
                } else {
                    // reference: the two filter stages
                    let ip_permitted = *i == 0 && lists & 2 != 0;
                    let node_permitted = *n == 0 && lists & 8 != 0;
                    let s1 = if ip_permitted { true } else if refm.banned_ips.contains(i) { false } else if !refm.ip.allows(*i, half) { refm.banned_ips.push(*i); false } else { refm.total.allows(0, half) };
                    s1 && (if node_permitted { true } else if refm.banned_nodes.contains(n) { false } else if !refm.node.allows(*n, half) { refm.banned_nodes.push(*n); false } else { true })
                };
                if !is_hs && passed != want {
                    return Err(mk(
                        if exempt { "an address this node is waiting for passes the inbound filter" } else if passed { "unsolicited datagrams beyond quota / from banned senders are dropped" } else { "traffic within every applicable quota is never refused" },
                        &format!("recv:{}:{}", if exempt { "exempt" } else { "unsolicited" }, if passed { "passed" } else { "dropped" }),
                        format!("step {step}: datagram from ip {i} claiming node {n}: reached the handler = {passed}, expected {want} (exempt = {exempt})"),
                    ));
                }
            }
            REv::Dial => {
                if w.submitted[0] {
                    continue;
                }
                w.step(&Ev::Submit(0), d).await;
            }
            REv::WaitHalf => {
                w.advance_through(Duration::from_nanos(HALF)).await;
                half += 1;
            }
        }
    }
    // the implementation's limiter state is not observable here: the positions of handshake-kind
    // arrivals in the history keep paths apart that only the reference considers equal
    let hs_positions: Vec<usize> = hist.iter().enumerate().filter(|(_, e)| matches!(e, REv::ArriveHs(..))).map(|(i, _)| i).collect();
    let fp = mc::fp_of(&(refm.ip.normalized(half), refm.node.normalized(half), refm.total.normalized(half), &refm.banned_ips, &refm.banned_nodes, w.nodes[0].wire.exemptions(), w.submitted.clone(), hs_positions));
    Ok((fp, exempt_hits))
}

fn recv_search(depth: usize, problems: &mut Vec<Violation>) -> (u64, u64, u64) {
    let evs = [REv::Arrive(0, 0), REv::Arrive(0, 1), REv::Arrive(1, 0), REv::Arrive(1, 1), REv::ArriveHs(1, 1), REv::ArriveHs(0, 0), REv::Dial, REv::WaitHalf];
    let (mut states, mut execs, mut exempt) = (0u64, 0u64, 0u64);
    for lists in [0u8, 1, 4, 3, 12] {
        let mut seen: HashSet<u128> = HashSet::new();
        let mut frontier: Vec<Vec<REv>> = vec![vec![]];
        for _ in 0..depth {
            let mut next = vec![];
            for h in &frontier {
                for ev in &evs {
                    let mut hist = h.clone();
                    hist.push(*ev);
                    execs += 1;
                    match crate::rt::run(recv_world(lists, &hist)) {
                        Ok((fp, ex)) => {
                            exempt += ex;
                            if seen.insert(fp) {
                                states += 1;
                                next.push(hist);
                            }
                        }
                        Err(v) => {
                            if problems.len() < 5 {
                                problems.push(v);
                            }
                        }
                    }
                }
            }
            frontier = next;
            if !problems.is_empty() {
                break;
            }
        }
    }
    (states, execs, exempt)
}

pub fn run() {
    if std::env::var("VERIF_C18_DEBUG").is_ok() {
        let saved = v::ban_list_snapshot();
        for lists in [0u8, 4] {
            let r = crate::rt::run(recv_world(lists, &[REv::ArriveHs(1, 1), REv::Arrive(1, 1)]));
            eprintln!("lists {lists}: {:?}", r.map_err(|v| (v.key, v.detail)));
        }
        v::ban_list_set(saved);
        return;
    }
    let mut rep = Report::new("C18", "model_checking");
    let thorough = rep.thorough();
    let mut problems = vec![];
    let (mut states, mut trans) = (0u64, 0u64);
    let ldepth = if thorough { 12 } else { 10 };
    for n in [1u64, 2, 3] {
        let (s, t) = limiter_search(n, ldepth, &mut rep, &mut problems);
        states += s;
        trans += t;
    }
    rep.set("limiter_states", states);
    // quotas whose period is not a multiple of the burst size (the default per-IP quota, 9 per
    // second, is one): a key with a full bucket may send its whole burst at one instant, the
    // next datagram is refused, one token is back after ceil(period / burst), the whole burst after
    // a full period
    let mut uneven = 0u64;
    // (periods of at least burst² ns: below that the integer-nanosecond arithmetic of the limiter
    // leaves room for one extra token — see DESIGN.md, observations)
    for (n, tau_ns) in [(3u64, 1_000_000_000u64), (9, 1_000_000_000), (7, 100_000_000), (3, 10), (6, 1_000_000_007), (9, 1_000)] {
        let tau = Duration::from_nanos(tau_ns);
        for start_ns in [0u64, 1, tau_ns / 2, 5 * tau_ns + 1] {
            let mut lim = Limiter::<u8>::from_quota(v::quota(n, tau)).expect("quota");
            let t0 = Duration::from_nanos(start_ns);
            let mut admitted = 0;
            for _ in 0..n + 2 {
                if lim.allows(t0, &7u8, 1).is_ok() {
                    admitted += 1;
                }
            }
            uneven += 1;
            let mut bad = None;
            if admitted != n {
                bad = Some((if admitted < n { "traffic within its quota is never refused" } else { "the number let through never exceeds burst + rate × window" }, if admitted < n { "limiter:false-refusal:uneven-quota" } else { "limiter:over-admission:uneven-quota" }, format!("quota {n} per {tau_ns} ns: a fresh key sending {} datagrams at one instant got {admitted} admitted", n + 2)));
            } else {
                // one token is back no later than ceil(tau / n) after the burst
                let one = Duration::from_nanos(start_ns + tau_ns.div_ceil(n));
                let again = lim.allows(one, &7u8, 1).is_ok();
                let and_not_two = lim.allows(one, &7u8, 1).is_ok();
                if !again || and_not_two {
                    bad = Some((if !again { "traffic within its quota is never refused" } else { "the number let through never exceeds burst + rate × window" }, "limiter:replenish:uneven-quota", format!("quota {n} per {tau_ns} ns: after ceil(period/burst) one more datagram must pass and only one (first {again}, second {and_not_two})")));
                }
            }
            if let Some((clause, key, detail)) = bad {
                problems.push(Violation { clause: clause.into(), key: key.into(), detail, replay: json!({"engine":"filter","part":"uneven-quota","burst":n,"period_ns":tau_ns,"start_ns":start_ns}) });
            }
        }
    }
    rep.set("uneven_quota_bursts", uneven);
    let pdepth = if thorough { 9 } else { 8 };
    let mut paths = 0;
    for n in [1u64, 2, 3] {
        paths += limiter_paths(n, pdepth, &mut problems);
    }
    rep.set("limiter_paths_enumerated", paths);
    rep.set("limiter_path_depth", pdepth as u64);
    // filter worlds: all 16 ban/permit combinations × quota sets
    let quotas: Vec<(u64, u64, u64)> = if thorough { vec![(2, 1, 3), (1, 2, 2), (2, 2, 2), (3, 1, 4)] } else { vec![(2, 1, 3), (1, 2, 2)] };
    let fdepth = if thorough { 7 } else { 5 };
    let (mut fs, mut ft, mut fe) = (0u64, 0u64, 0u64);
    let saved = v::ban_list_snapshot();
    for lists in 0..16u8 {
        for (ip_n, node_n, total_n) in &quotas {
            let cfg = FCfg { lists, ip_n: *ip_n, node_n: *node_n, total_n: *total_n };
            let (s, t, e) = filter_search(&cfg, fdepth, &mut problems);
            fs += s;
            ft += t;
            fe += e;
        }
    }
    // part D: through the receive path of a real handler
    let (rs, re, rx) = recv_search(if thorough { 5 } else { 4 }, &mut problems);
    rep.set("receive_path_states", rs);
    rep.set("receive_path_executions", re);
    rep.set("receive_path_exempt_arrivals", rx);
    v::ban_list_set(saved);
    rep.set("filter_states", fs);
    rep.set("filter_executions", fe);
    rep.set("filter_depth", fdepth as u64);
    rep.set("states", states + fs + rs);
    rep.set("transitions", trans + ft + re);
    rep.set("traces_validated_against_impl", trans + fe + paths + re);
    rep.set("evaluations", trans + fe + paths + re);
    rep.set("distinct_nontrivial", states + fs + rs);
    rep.set("exhaustive", true);
    rep.set("rule", "A: explicit-state BFS (cloned states) of the real Limiter<u8> for burst 1,2,3 over {arrive(k1|k2), wait(T/2), wait(burst·T), prune} to the stated depth, every decision compared with an exact token bucket; B: every path of the stated depth without state merging — window bound on the pass log and prune-differential; C: history-replay BFS of the real packet Filter (real RateLimiter, process-global permit/ban list, 2 IPs × 2 node ids, all 16 ban/permit combinations, several quota sets) against a two-stage reference incl. ban list contents and ban expiry; D: history-replay BFS over {datagram from ip×id, the node dials the peer at ip 0, wait} on a real Handler with the packet filter enabled, through the real RecvHandler::handle_inbound: a datagram reaches the handler iff its source address is exempt (outstanding request) or the two-stage reference lets it pass");
    rep.sample(json!({"part":"filter","lists":"ip0 banned+permitted (3)","history":"[Arrive(0,0), Arrive(0,0), Arrive(0,1), WaitHalf, Arrive(1,0)]"}));
    rep.assume("time granularity T/2 (T = token period); quotas use whole-second periods so all arithmetic is exact");
    rep.assume("max_nodes_per_ip / max_bans_per_ip heuristics are disabled (not part of the property)");
    for p in problems {
        rep.violation(p);
    }
    rep.require_nonzero(&["limiter_refusals", "limiter_pruned_entries", "filter_states", "receive_path_exempt_arrivals"]);
    rep.finish();
}
