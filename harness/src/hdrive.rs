//! Drivers over `hsim` for honest peers under network / application / timing faults:
//! C04 (one outcome), C13 (exemptions), C03 (honest part), C19 (nonces).
use crate::clock;
use crate::hsim::{run_history, Body, Ev, HCfg, Monitors, Req};
use crate::mc::{self, Limits, Report};
use crate::rt;
use serde_json::json;
use std::collections::BTreeMap;

fn req(from: usize, to: usize, body: Body, with_enr: bool) -> Req {
    Req { from, to, body, with_enr }
}

pub fn workloads(thorough: bool) -> Vec<(String, HCfg)> {
    let mut out = vec![];
    let mut add = |name: &str, nodes: usize, w: Vec<Req>, retries: u8, restart: Vec<usize>| {
        out.push((name.to_string(), HCfg { nodes, workload: w, retries, allow_restart: restart, ..Default::default() }));
    };
    add("ping", 2, vec![req(0, 1, Body::Ping, true)], 1, vec![]);
    add("ping-noenr", 2, vec![req(0, 1, Body::Ping, false)], 1, vec![]);
    add("two-pings", 2, vec![req(0, 1, Body::Ping, true), req(0, 1, Body::Talk, true)], 1, vec![]);
    add("both-directions", 2, vec![req(0, 1, Body::Ping, true), req(1, 0, Body::Ping, true)], 1, vec![]);
    add("noenr+second", 2, vec![req(0, 1, Body::Ping, false), req(0, 1, Body::Talk, false)], 1, vec![]);
    add("find2", 2, vec![req(0, 1, Body::Find(2), true)], 1, vec![]);
    add("crossing-three", 2, vec![req(1, 0, Body::Ping, true), req(0, 1, Body::Ping, true), req(0, 1, Body::Talk, true)], 1, vec![]);
    add("restart-peer", 2, vec![req(0, 1, Body::Ping, true), req(0, 1, Body::Talk, true)], 1, vec![1]);
    // a third request under the keys of a session re-established after the peer lost its state
    add("restart-three", 2, vec![req(0, 1, Body::Ping, true), req(0, 1, Body::Talk, true), req(0, 1, Body::Find(1), true)], 1, vec![1]);
    // session cache of one entry: a session leaves the cache while its request is in flight and the
    // (restarted) peer challenges that request
    out.push(("capacity1-restart".to_string(), HCfg { nodes: 3, workload: vec![req(0, 1, Body::Ping, true), req(0, 1, Body::Talk, true), req(0, 2, Body::Ping, true), req(0, 1, Body::Find(1), true)], retries: 1, allow_restart: vec![1], session_capacity: Some(1), allow_drop: false, allow_dup: false, allow_reorder: false, allow_early_timer: false, ..Default::default() }));
    let mut add = |name: &str, nodes: usize, w: Vec<Req>, retries: u8, restart: Vec<usize>| {
        out.push((name.to_string(), HCfg { nodes, workload: w, retries, allow_restart: restart, ..Default::default() }));
    };
    // retransmissions: request_retries = 2 re-sends once, 3 twice (the default 1 never re-sends)
    add("ping-retries2", 2, vec![req(0, 1, Body::Ping, true)], 2, vec![]);
    add("ping-retries0", 2, vec![req(0, 1, Body::Ping, true), req(1, 0, Body::Ping, true)], 0, vec![]);
    if thorough {
        add("ping-retries3", 2, vec![req(0, 1, Body::Ping, true), req(1, 0, Body::Ping, true)], 3, vec![]);
        add("retries2", 2, vec![req(0, 1, Body::Ping, true), req(0, 1, Body::Find(2), true)], 2, vec![]);
        add("three-nodes", 3, vec![req(0, 1, Body::Ping, true), req(0, 2, Body::Ping, false), req(1, 0, Body::Talk, true)], 1, vec![]);
        add("find2+ping-noenr", 2, vec![req(0, 1, Body::Find(2), false), req(0, 1, Body::Ping, false), req(1, 0, Body::Ping, true)], 1, vec![]);
        add("restart-both", 2, vec![req(0, 1, Body::Ping, true), req(1, 0, Body::Talk, true), req(0, 1, Body::Talk, true)], 1, vec![0, 1]);
        add("retries0", 2, vec![req(0, 1, Body::Ping, false), req(0, 1, Body::Talk, true)], 0, vec![]);
    }
    out
}

pub fn regression_holds(payload: &serde_json::Value, prop: &str) -> bool {
    let name = payload["workload"].as_str().unwrap_or("");
    let hist = crate::hsim::parse_history(payload["history"].as_str().unwrap_or("[]"));
    let wl: Vec<(String, HCfg)> = workloads(true).into_iter().chain(c20_worlds()).collect();
    let mut cfg = match wl.iter().find(|(n, _)| n == name) {
        Some((_, c)) => c.clone(),
        None => return true,
    };
    cfg.force_nonce = prop == "C19";
    let monitors = Monitors { c03: prop == "C03", c04: prop == "C04", c13: prop == "C13", c15: false, c19: prop == "C19", c20: prop == "C20" };
    rt::run(run_history(&cfg, monitors, &hist, true)).violation.is_none()
}

pub fn replay(payload: &serde_json::Value, prop: &str) {
    let name = payload["workload"].as_str().unwrap_or("");
    let hist = crate::hsim::parse_history(payload["history"].as_str().unwrap_or("[]"));
    let wl: Vec<(String, HCfg)> = workloads(true).into_iter().chain(c20_worlds()).collect();
    let cfg = match wl.iter().find(|(n, _)| n == name) {
        Some((_, c)) => c.clone(),
        None => mc::machinery(&format!("unknown workload {name}")),
    };
    let mut cfg = cfg;
    cfg.force_nonce = prop == "C19";
    let monitors = Monitors { c03: prop == "C03", c04: prop == "C04", c13: prop == "C13", c15: false, c19: prop == "C19", c20: prop == "C20" };
    rt::run(crate::hsim::replay_verbose(&cfg, monitors, &hist, &crate::hsim::NoDriver));
}

/// C19: one long scripted session — many requests in both directions under one key, losses that
/// force retransmissions, and a mid-way restart of the peer (re-key with requests in flight).
async fn long_session(n: usize, retries: u8) -> (u64, u64, Vec<mc::Violation>, std::collections::BTreeMap<&'static str, u64>) {
    use crate::hsim::{NoDriver, World};
    let workload: Vec<Req> = (0..n).map(|k| if k % 3 == 2 { req(1, 0, if k % 2 == 0 { Body::Ping } else { Body::Talk }, true) } else { req(0, 1, if k % 4 == 0 { Body::Find(2) } else { Body::Ping }, true) }).collect();
    let cfg = HCfg { nodes: 2, workload, retries, force_nonce: true, allow_restart: vec![1], ..Default::default() };
    let monitors = Monitors { c03: false, c04: false, c13: false, c15: false, c19: true, c20: false };
    let mut w = World::build(&cfg, monitors).await;
    let d = NoDriver;
    let mut steps = 0u64;
    for k in 0..n {
        w.step(&Ev::Submit(k), &d).await;
        steps += 1;
        if k % 5 == 3 && !w.inflight.is_empty() {
            // lose the newest datagram: the request is retransmitted by its timer
            let last = w.inflight.len() - 1;
            w.step(&Ev::Drop(last), &d).await;
            steps += 1;
        }
        if k == n / 4 {
            // early: the counters of the re-established session pass the value the challenged
            // request carried
            w.step(&Ev::Restart(1), &d).await;
            steps += 1;
        }
        if k % 2 == 1 {
            // two requests are in flight together every other round
            continue;
        }
        let mut guard = 0;
        loop {
            let ev = match w.default_event() {
                // pending timers (retransmissions, failures) run before the next submission
                Some(Ev::Submit(_)) if w.earliest_deadline().is_some() => Ev::Timer,
                Some(Ev::Submit(_)) | None => break,
                Some(e) => e,
            };
            w.step(&ev, &d).await;
            steps += 1;
            guard += 1;
            if guard > 200 || !w.violations.is_empty() {
                break;
            }
        }
        if !w.violations.is_empty() {
            break;
        }
    }
    let datagrams = w.log.len() as u64;
    let vio = w.violations.clone();
    let counters = w.counters.clone();
    let _ = steps;
    (datagrams, steps, vio, counters)
}

pub fn c20_worlds() -> Vec<(String, HCfg)> {
    vec![
        // an answer that fills its datagram to exactly 1280 bytes
        ("talk-max".to_string(), HCfg { nodes: 2, workload: vec![req(0, 1, Body::TalkMax, true), req(0, 1, Body::TalkMax, true)], allow_dup: false, allow_reorder: false, allow_drop: false, allow_early_timer: false, ..Default::default() }),
        // an answer of 40 packets handed over in one go (more than the queue to the send task holds)
        ("find40".to_string(), HCfg { nodes: 2, workload: vec![req(0, 1, Body::Find(40), true)], allow_dup: false, allow_reorder: false, allow_drop: false, allow_early_timer: false, ..Default::default() }),
        ("held-talk".to_string(), HCfg { nodes: 2, workload: vec![req(0, 1, Body::Talk, true), req(1, 0, Body::Ping, true)], allow_dup: false, allow_reorder: false, ..Default::default() }),
        ("held-talk-noenr".to_string(), HCfg { nodes: 2, workload: vec![req(0, 1, Body::Talk, false), req(1, 0, Body::Talk, true)], allow_dup: false, allow_reorder: false, ..Default::default() }),
    ]
}

/// Handler part of C20: real handlers, the application of one node *holds* a delivered TALK
/// request while its own request to the requester is lost and times out; answering afterwards
/// must still put exactly that response on the wire to the requester.
pub fn c20_part(thorough: bool) -> (mc::Stats, Vec<mc::Violation>) {
    handler_part("C20", thorough)
}

/// The same worlds read for C14 ("every request is answered": the transport puts every response
/// packet on the wire).
pub fn c14_part(thorough: bool) -> (mc::Stats, Vec<mc::Violation>) {
    handler_part("C14", thorough)
}

fn handler_part(prop: &str, thorough: bool) -> (mc::Stats, Vec<mc::Violation>) {
    let monitors = Monitors { c03: false, c04: false, c13: false, c15: false, c19: false, c20: true };
    let worlds = c20_worlds();
    let k = if thorough { 3 } else { 2 };
    let mut total = mc::Stats { states: 0, transitions: 0, executions: 0, steps: 0, max_depth: 0, distinct_terminals: 0, counters: BTreeMap::new(), exhaustive: true, cap: None, per_budget: vec![] };
    let mut found = vec![];
    for (name, cfg) in &worlds {
        let mut cfg = cfg.clone();
        cfg.focus = vec![prop.to_string()];
        let cfg = &cfg;
        let limits = Limits { max_budget: k, max_depth: 80, max_states: 2_000_000, wall_s: mc::budget(thorough, 15.0, 0.2) };
        let mut vio = vec![];
        let m = monitors.clone();
        let stats = mc::explore(&limits, |h: &[Ev]| rt::run(run_history(cfg, m.clone(), h, true)), |v, _| vio.push(v), |_, _| {});
        total.states += stats.states;
        total.transitions += stats.transitions;
        total.executions += stats.executions;
        total.steps += stats.steps;
        for (k, v) in stats.counters {
            *total.counters.entry(k).or_insert(0) += v;
        }
        if !stats.exhaustive {
            total.exhaustive = false;
            total.cap = stats.cap;
        }
        for mut v in vio {
            if v.key.starts_with(&format!("{prop}:")) || v.key.starts_with("panic:") {
                v.replay["workload"] = json!(name);
                v.replay["engine"] = json!("hsim");
                v.replay["driver"] = json!("hdrive");
                found.push(v);
            }
        }
    }
    (total, found)
}

pub fn run(prop: &str) {
    let mut rep = Report::new(prop, "model_checking");
    let thorough = rep.thorough();
    let monitors = Monitors { c03: prop == "C03", c04: prop == "C04", c13: prop == "C13", c15: false, c19: prop == "C19", c20: prop == "C20" };
    let k_max: u32 = std::env::var("VERIF_K").ok().and_then(|v| v.parse().ok()).unwrap_or(if thorough { 3 } else { 2 });
    let budget = mc::budget(thorough, 50.0, if prop == "C03" || prop == "C13" { 0.5 } else { 1.0 });
    let start = clock::wall();
    // the three-node cache-eviction workload is decided for C19 in the quick tier, for all four in the thorough tier
    let wl: Vec<(String, HCfg)> = workloads(thorough).into_iter().filter(|(n, _)| thorough || prop == "C19" || n != "capacity1-restart").collect();
    let per = budget / wl.len() as f64;
    let (mut states, mut trans, mut execs, mut steps) = (0u64, 0u64, 0u64, 0u64);
    let mut counters: BTreeMap<&'static str, u64> = BTreeMap::new();
    let mut exhaustive = true;
    let mut caps = vec![];
    let mut found: Vec<mc::Violation> = vec![];
    let mut terminals = 0usize;
    for (name, cfg0) in &wl {
        let mut cfg = cfg0.clone();
        cfg.force_nonce = prop == "C19";
        cfg.focus = vec![prop.to_string()];
        let remaining = (budget - (clock::wall() - start)).min(per * 2.0);
        if remaining < 1.0 {
            exhaustive = false;
            caps.push(format!("wall budget exhausted before workload {name}"));
            break;
        }
        let limits = Limits { max_budget: k_max, max_depth: 80, max_states: 3_000_000, wall_s: remaining };
        let mut vio = vec![];
        let mut samples = vec![];
        let m = monitors.clone();
        let stats = mc::explore(&limits, |h: &[Ev]| rt::run(run_history(&cfg, m.clone(), h, true)), |v, _| vio.push(v), |h, o| {
            if o.enabled.is_empty() {
                samples.push(format!("{:?}", h))
            }
        });
        states += stats.states;
        trans += stats.transitions;
        execs += stats.executions;
        steps += stats.steps;
        terminals += stats.distinct_terminals;
        for (k, v) in stats.counters {
            *counters.entry(k).or_insert(0) += v;
        }
        if !stats.exhaustive {
            exhaustive = false;
            caps.push(format!("{name}: {}", stats.cap.unwrap_or_default()));
        }
        if let Some(s) = samples.into_iter().next() {
            rep.sample(json!({"workload":name,"leaf_history":s}));
        }
        for mut v in vio {
            if v.key.starts_with(&format!("{prop}:")) || v.key.starts_with("panic:") {
                v.replay["workload"] = json!(name);
                v.replay["engine"] = json!("hsim");
                v.replay["driver"] = json!("hdrive");
                found.push(v);
            }
        }
    }
    if prop == "C19" {
        for (n, r) in [(40usize, 2u8), (24, 3)] {
            let (datagrams, lsteps, vio, c) = rt::run(long_session(n, r));
            rep.add("long_session_datagrams", datagrams);
            rep.add("long_session_steps", lsteps);
            rep.add("long_session_retransmissions", c.get("retransmissions").copied().unwrap_or(0));
            rep.add("long_session_datagrams_attributed", c.get("datagrams_attributed_to_a_key").copied().unwrap_or(0));
            execs += 1;
            for mut v in vio {
                v.replay = json!({"engine":"hsim","driver":"long-session","requests":n,"retries":r});
                found.push(v);
            }
        }
        rep.sample(json!({"part":"long session","script":"40 requests in both directions under one session, every 5th request's datagram lost (retransmission), peer restarted after a quarter of the requests (re-key with requests in flight; the new session's counters pass the old ones), nonce randomness forced constant"}));
    }
    // C03 / C13 / C04 / C19 are also decided against a malicious peer / on-path attacker
    if prop == "C03" || prop == "C13" || prop == "C04" || prop == "C19" {
        let ak: u32 = std::env::var("VERIF_AK").ok().and_then(|v| v.parse().ok()).unwrap_or(if thorough { 5 } else if prop == "C04" { 2 } else if prop == "C19" { 4 } else { 3 });
        let (st, vio, samples) = crate::attack::explore(prop, thorough, mc::budget(thorough, 60.0, 0.5), ak);
        rep.set("attacker_worlds_states", st.states);
        rep.set("attacker_worlds_executions", st.executions);
        rep.set("attacker_move_bound", ak as u64);
        states += st.states;
        trans += st.transitions;
        execs += st.executions;
        steps += st.steps;
        if !st.exhaustive {
            exhaustive = false;
            caps.push(format!("attacker worlds: {}", st.cap.unwrap_or_default()));
        }
        for (k, v) in st.counters {
            *counters.entry(k).or_insert(0) += v;
        }
        for s in samples.into_iter().take(2) {
            rep.sample(s);
        }
        found.extend(vio);
    }
    rep.set("states", states);
    rep.set("transitions", trans);
    rep.set("traces_validated_against_impl", execs);
    rep.set("handler_steps_executed", steps);
    rep.set("evaluations", execs);
    rep.set("distinct_nontrivial", states);
    rep.set("workloads", wl.len() as u64);
    rep.set("deviation_bound_K", k_max as u64);
    rep.set("distinct_terminal_observations", terminals as u64);
    rep.set("exhaustive", exhaustive);
    if !caps.is_empty() {
        rep.set("caps", json!(caps));
    }
    for (k, v) in &counters {
        rep.set(&format!("activations_{k}"), *v);
    }
    rep.set("rule", "explicit-state BFS over event histories on 2–3 real Handlers over virtual sockets: default policy = deliver oldest datagram, answer who-are-you truthfully, respond, submit, fire earliest timer; request submission timing is free; every other choice (reorder, drop, duplicate, record-less who-are-you answer, early timer, peer restart) costs one deviation, all histories with ≤ K deviations are explored and run to a leaf; state = history re-executed on fresh handlers; fingerprint = canonical handler bookkeeping (random values scrubbed) + in-flight datagrams + obligations + ledger");
    rep.assume("random values (nonces, ephemeral keys, internal request ids) are not owned by the harness; fingerprints and observations are canonical in them and every replay checks the observation chain of its prefix");
    if prop == "C19" {
        rep.assume("the 8 random bytes of every message nonce are forced to a constant (worst-case RNG); id-nonce uniqueness is only checked for exact repeats");
    }
    if rep.samples.is_empty() {
        rep.sample(json!({"note":"no leaf sample recorded"}));
    }
    for v in found {
        rep.violation(v);
    }
    let need: &[&str] = match prop {
        "C13" => &["states_with_exemptions"],
        "C03" => &["session_keys_established", "handshakes_sent"],
        "C19" => &["datagrams_attributed_to_a_key"],
        _ => &["datagrams_attributed_to_a_key"],
    };
    for k in need {
        if counters.get(k).copied().unwrap_or(0) == 0 {
            rep.vacuous(&format!("{prop} vacuous: {k} = 0"));
        }
    }
    rep.finish();
}
