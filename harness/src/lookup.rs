//! Service-level part of C09 / C10: a real `Discv5::find_node` / `find_node_predicate` over a
//! scripted handler. The harness plays every peer the lookup contacts.
use crate::clock;
use crate::mc::{self, Limits, Outcome, Violation};
use crate::rt;
use crate::snode::{SNode, SNodeSpec};
use crate::ssim::record;
use crate::util;
use discv5::enr::NodeId;
use discv5::verif::{self as v, HandlerIn, HandlerOut};
use discv5::{Enr, ListenConfig, NodeAddress};
use serde_json::json;
use std::collections::{BTreeMap, BTreeSet};
use std::net::Ipv4Addr;
use std::time::{Duration, Instant};

const LOCAL: u16 = 90;
// deliberately not the defaults (2 s / 60 s): a configuration value that never reaches the lookup
// must show
const PEER_TIMEOUT: Duration = Duration::from_secs(3);
const QUERY_TIMEOUT: Duration = Duration::from_secs(7);

#[derive(Clone, Debug, PartialEq, Eq, Hash)]
pub enum LEv {
    /// peer i answers its outstanding request with the records of these peers (one NODES packet)
    Resp(u8, Vec<u8>),
    /// the request to peer i fails
    Fail(u8),
    /// a response from peer i for a request that is no longer outstanding
    Late(u8),
    /// peer i sends the first of two NODES packets (total 2) holding this peer's record; the
    /// request stays outstanding
    Partial(u8, u8),
    IdlePeer,
    IdleQuery,
    Wake,
    /// peer i answers the request an *earlier*, already ended lookup sent to it
    Stale(u8),
}

#[derive(Clone, Debug)]
pub struct LCfg {
    pub n_peers: usize,
    pub seeded: Vec<u8>,
    pub parallelism: usize,
    /// None: plain lookup (k = 16); Some(k): predicate lookup for k nodes
    pub predicate_k: Option<usize>,
    /// An earlier lookup that ended with requests still outstanding at the handler:
    /// 0 none; 1 cut off by the query timeout; 2 finished after all its peers went unresponsive.
    pub prelude: u8,
    /// peers may also answer with the first packet of a two-packet NODES answer and never send the
    /// second (the request then fails by timeout; what was received still counts)
    pub partial: bool,
}

fn peer_record(i: u8) -> Enr {
    // udp port parity is what the predicate looks at
    let k = 91 + i as u16;
    util::enr4(&util::key(k), 1, util::v4(10, 7, 0, i + 1, 9000 + i as u16))
}

fn predicate(e: &Enr) -> bool {
    e.udp4().map(|p| p % 2 == 0).unwrap_or(false)
}

fn xor(a: &NodeId, b: &NodeId) -> [u8; 32] {
    let (a, b) = (a.raw(), b.raw());
    let mut o = [0u8; 32];
    for i in 0..32 {
        o[i] = a[i] ^ b[i];
    }
    o
}

async fn run_async(cfg: &LCfg, hist: &[LEv]) -> Outcome<LEv> {
    let par = cfg.parallelism;
    let listen = ListenConfig::Ipv4 { ip: Ipv4Addr::new(10, 7, 0, 100), port: 9000 };
    let mut node = SNode::start(SNodeSpec { keyno: LOCAL, listen, enr: Some(record(LOCAL, 1, false, 7)) }, |b| { b.query_parallelism(par); b.query_peer_timeout(PEER_TIMEOUT); b.query_timeout(QUERY_TIMEOUT);
        // the size of this node's own NODES answers has nothing to do with a lookup's k = 16
        b.max_nodes_response(2); }, false).await;
    let peers: Vec<Enr> = (0..cfg.n_peers as u8).map(peer_record).collect();
    let ids: Vec<NodeId> = peers.iter().map(|e| e.node_id()).collect();
    let target = util::node_id(&util::key(199));
    for s in &cfg.seeded {
        node.discv5.add_enr(peers[*s as usize].clone()).expect("seed");
    }
    let k = cfg.predicate_k.unwrap_or(16);
    let mut stale: BTreeMap<usize, v::RequestId> = BTreeMap::new();
    let mut prelude_violation: Option<Violation> = None;
    if cfg.prelude != 0 {
        let first = tokio::spawn(node.discv5.find_node(target));
        for _ in 0..3 {
            node.inject(HandlerOut::ExpiredSessions(vec![])).await;
        }
        rt::settle().await;
        for hin in node.drain_handler_in() {
            if let HandlerIn::Request(contact, req) = hin {
                if let Some(p) = ids.iter().position(|i| *i == contact.node_id()) {
                    stale.insert(p, req.id.clone());
                }
            }
        }
        clock::advance(if cfg.prelude == 1 { QUERY_TIMEOUT } else { PEER_TIMEOUT });
        for _ in 0..3 {
            node.inject(HandlerOut::ExpiredSessions(vec![])).await;
        }
        rt::settle().await;
        if !first.is_finished() {
            first.abort();
            prelude_violation = Some(Violation { clause: "every lookup terminates and hands its result to the caller".into(), key: "c09:prelude-no-termination".into(), detail: format!("earlier lookup (prelude {}) did not resolve", cfg.prelude), replay: json!(null) });
        } else {
            let _ = first.await;
        }
        let _ = node.drain_handler_in();
    }
    let mut handle = Some(match cfg.predicate_k {
        None => tokio::spawn(node.discv5.find_node(target)),
        Some(k) => tokio::spawn(node.discv5.find_node_predicate(target, Box::new(predicate), k)),
    });
    for _ in 0..2 {
        node.inject(HandlerOut::ExpiredSessions(vec![])).await;
    }
    // ledger
    let mut issued: BTreeMap<usize, (v::RequestId, Instant, Vec<u64>)> = BTreeMap::new();
    // where each request went (a real handler reports a response from exactly that address)
    let mut sent_to: BTreeMap<usize, std::net::SocketAddr> = BTreeMap::new();
    let mut answered: BTreeSet<usize> = BTreeSet::new();
    let mut succeeded: BTreeSet<usize> = BTreeSet::new();
    let mut successes = 0usize;
    // peers the lookup was told about in a first answer to one of its requests, at a requested distance
    let mut learned: BTreeSet<usize> = BTreeSet::new();
    // peers of which some record satisfying the predicate was reported to the lookup (its initial
    // candidates' stored records, records in answers)
    let mut reported_ok: BTreeSet<usize> = (0..cfg.n_peers).filter(|i| predicate(&peers[*i])).collect();
    // first packets of two-packet answers received so far (peer -> the peer named in it)
    let mut partial: BTreeMap<usize, usize> = BTreeMap::new();
    let mut cut_off = false;
    let mut result: Option<Vec<Enr>> = None;
    let mut resolved_at: Option<usize> = None;
    let mut violation: Option<Violation> = prelude_violation;
    let mut counters: BTreeMap<&'static str, u64> = BTreeMap::new();
    let mut chain = vec![];
    let mut prev = None;
    let started = Instant::now();
    let mk = |clause: &str, key: &str, detail: String| Violation { clause: clause.into(), key: key.into(), detail, replay: json!(null) };

    macro_rules! absorb {
        ($step:expr) => {{
            let now = Instant::now();
            for hin in node.drain_handler_in() {
                if let HandlerIn::Request(contact, req) = hin {
                    if let v::RequestBody::FindNode { distances } = &req.body {
                        if let Some(p) = ids.iter().position(|i| *i == contact.node_id()) {
                            *counters.entry("issuances").or_insert(0) += 1;
                            if issued.contains_key(&p) {
                                violation = Some(mk("a lookup never sends its request to the same peer twice", "c09:issued-twice", format!("peer {p}")));
                            }
                            let inflight = issued.iter().filter(|(q, (_, t, _))| !answered.contains(q) && now < *t + PEER_TIMEOUT).count();
                            if inflight >= par {
                                if !(successes >= par && inflight < k) {
                                    violation = Some(mk("never more requests in flight than the configured parallelism (or, once stalled, than the number of results)", "c09:parallelism", format!("request to peer {p} emitted with {inflight} in flight, parallelism {par}, k {k}")));
                                }
                                *counters.entry("issuances_above_parallelism").or_insert(0) += 1;
                            }
                            sent_to.insert(p, contact.socket_addr());
                            issued.insert(p, (req.id.clone(), now, distances.clone()));
                        }
                    }
                }
            }
            if let Some(h) = handle.as_ref() {
                if h.is_finished() {
                    let r = handle.take().unwrap().await;
                    match r {
                        Ok(Ok(list)) => {
                            result = Some(list);
                            resolved_at = Some($step);
                        }
                        other => violation = Some(mk("a lookup hands its result to the caller exactly once", "c09:api-error", format!("{:?}", other.map(|x| x.map(|l| l.len()))))),
                    }
                }
            }
        }};
    }
    absorb!(0);
    for (step, ev) in hist.iter().enumerate() {
        if step + 1 == hist.len() {
            counters.clear();
        }
        clock::advance(Duration::from_millis(10));
        match ev {
            LEv::Resp(p, s) => {
                let (id, _, distances) = issued.get(&(*p as usize)).cloned().expect("outstanding");
                answered.insert(*p as usize);
                succeeded.insert(*p as usize);
                successes += 1;
                *counters.entry("responses").or_insert(0) += 1;
                for i in s.iter().filter(|i| **i < 100 || **i >= 200).map(|i| if *i >= 200 { *i - 200 } else { *i }).collect::<Vec<u8>>().iter() {
                    let d = if *i == *p { 0 } else { util::log2_distance(&ids[*p as usize], &ids[*i as usize]) };
                    if distances.contains(&d) && *i != *p {
                        learned.insert(*i as usize);
                    }
                }
                // 100 + i: a newer record of peer i that carries no endpoint any more
                // 200 + i: a newer record of peer i on the next port (the predicate looks at the port's parity)
                let nodes: Vec<Enr> = s.iter().map(|i| if *i >= 200 { let j = *i - 200; util::enr4(&util::key(91 + j as u16), 2, util::v4(10, 7, 0, j + 1, 9000 + j as u16 + 1)) } else if *i >= 100 { util::enr(&util::key(91 + (*i - 100) as u16), &util::EnrSpec { seq: 2, ..Default::default() }) } else { peers[*i as usize].clone() }).collect();
                for (i, r) in s.iter().zip(nodes.iter()) {
                    if predicate(r) {
                        reported_ok.insert(if *i >= 200 { *i - 200 } else if *i >= 100 { *i - 100 } else { *i } as usize);
                    }
                }
                let from = NodeAddress { socket_addr: sent_to.get(&(*p as usize)).copied().unwrap_or_else(|| peers[*p as usize].udp4_socket().unwrap().into()), node_id: ids[*p as usize] };
                node.inject(HandlerOut::Response(from, Box::new(v::Response { id, body: v::ResponseBody::Nodes { total: 1, nodes } }))).await;
            }
            LEv::Partial(p, a) => {
                let (id, _, _) = issued.get(&(*p as usize)).cloned().expect("outstanding");
                partial.insert(*p as usize, *a as usize);
                *counters.entry("partial_answers").or_insert(0) += 1;
                let from = NodeAddress { socket_addr: sent_to.get(&(*p as usize)).copied().unwrap_or_else(|| peers[*p as usize].udp4_socket().unwrap().into()), node_id: ids[*p as usize] };
                node.inject(HandlerOut::Response(from, Box::new(v::Response { id, body: v::ResponseBody::Nodes { total: 2, nodes: vec![peers[*a as usize].clone()] } }))).await;
            }
            LEv::Fail(p) => {
                let (id, _, distances) = issued.get(&(*p as usize)).cloned().expect("outstanding");
                // what a failed request had received so far is processed as its answer
                if let Some(a) = partial.remove(&(*p as usize)) {
                    succeeded.insert(*p as usize);
                    successes += 1;
                    *counters.entry("partial_answers_salvaged").or_insert(0) += 1;
                    let d = util::log2_distance(&ids[*p as usize], &ids[a]);
                    if distances.contains(&d) {
                        learned.insert(a);
                    }
                }
                answered.insert(*p as usize);
                node.inject(HandlerOut::RequestFailed(id, discv5::RequestError::Timeout)).await;
            }
            LEv::Late(p) => {
                let (id, _, _) = issued.get(&(*p as usize)).cloned().expect("issued");
                let from = NodeAddress { socket_addr: sent_to.get(&(*p as usize)).copied().unwrap_or_else(|| peers[*p as usize].udp4_socket().unwrap().into()), node_id: ids[*p as usize] };
                node.inject(HandlerOut::Response(from, Box::new(v::Response { id, body: v::ResponseBody::Nodes { total: 1, nodes: vec![peers[0].clone()] } }))).await;
            }
            LEv::IdlePeer => {
                clock::advance(PEER_TIMEOUT);
                node.inject(HandlerOut::ExpiredSessions(vec![])).await;
            }
            LEv::IdleQuery => {
                cut_off = true;
                clock::advance(QUERY_TIMEOUT);
                node.inject(HandlerOut::ExpiredSessions(vec![])).await;
            }
            LEv::Wake => {
                node.inject(HandlerOut::ExpiredSessions(vec![])).await;
            }
            LEv::Stale(p) => {
                let id = stale.get(&(*p as usize)).cloned().expect("stale request");
                *counters.entry("stale_answers").or_insert(0) += 1;
                let from = NodeAddress { socket_addr: sent_to.get(&(*p as usize)).copied().unwrap_or_else(|| peers[*p as usize].udp4_socket().unwrap().into()), node_id: ids[*p as usize] };
                let other = (*p as usize + 1) % cfg.n_peers;
                node.inject(HandlerOut::Response(from, Box::new(v::Response { id, body: v::ResponseBody::Nodes { total: 1, nodes: vec![peers[other].clone()] } }))).await;
            }
        }
        // tokio's select! polls its branches in random order and the query pool registers no
        // waker: one wake-up may or may not poll the pool after the event was handled. Two
        // neutral wake-ups make every step end with the pool polled to quiescence.
        for _ in 0..2 {
            node.inject(HandlerOut::ExpiredSessions(vec![])).await;
        }
        rt::settle().await;
        absorb!(step + 1);
        let obs = format!("{:?}/{:?}", issued.keys().collect::<Vec<_>>(), result.as_ref().map(|r| r.len()));
        if std::env::var("VERIF_DEBUG").is_ok() {
            eprintln!("  step {step} {:?} -> {obs}", ev);
        }
        let c = mc::chain(prev, &obs);
        chain.push(c);
        prev = Some(c);
        if violation.is_some() {
            break;
        }
    }
    let now = Instant::now();
    // C10 on the result (evaluated when the lookup resolves: inside the explored history or during
    // the default completion)
    let mut result_checked = false;
    macro_rules! check_result {
        () => {{
            if violation.is_none() && !result_checked {
                if let Some(list) = &result {
                    result_checked = true;
                    *counters.entry("results").or_insert(0) += 1;
                    let rid: Vec<NodeId> = list.iter().map(|e| e.node_id()).collect();
                    let set: BTreeSet<[u8; 32]> = rid.iter().map(|i| i.raw()).collect();
                    if list.len() > k {
                        violation = Some(mk("a result contains at most k nodes", "c10:result>k", format!("{} > {k}", list.len())));
                    } else if set.len() != rid.len() {
                        violation = Some(mk("result nodes are distinct", "c10:result-duplicate", format!("{}", rid.len())));
                    }
                    for w in rid.windows(2) {
                        if xor(&target, &w[0]) >= xor(&target, &w[1]) {
                            violation = Some(mk("result is in increasing XOR distance", "c10:result-order", "order".into()));
                        }
                    }
                    for (e, id) in list.iter().zip(rid.iter()) {
                        match ids.iter().position(|i| i == id) {
                            Some(p) if succeeded.contains(&p) => {
                                // (the record handed back may be an older one the node holds: the property
                                // speaks of the records the node was *reported with*)
                                let _ = e;
                                if cfg.predicate_k.is_some() && !reported_ok.contains(&p) {
                                    violation = Some(mk("a predicate lookup returns only nodes that were reported to it with a record satisfying the predicate", "c10:result-predicate", format!("peer {p}: no record of it that satisfies the predicate was ever reported to the lookup")));
                                }
                            }
                            Some(p) => violation = Some(mk("every returned node answered the lookup's request", "c10:result-unanswered", format!("peer {p} returned but never answered"))),
                            None => violation = Some(mk("every returned node answered the lookup's request", "c10:result-unknown", "unknown node in result".into())),
                        }
                    }
                    // completeness: fewer than k and not cut off => every candidate it learned of was contacted
                    if list.len() < k && !cut_off {
                        *counters.entry("short_results").or_insert(0) += 1;
                        // (initial candidates: a plain lookup starts from all table entries)
                        let initial: Vec<usize> = if cfg.predicate_k.is_none() { cfg.seeded.iter().map(|s| *s as usize).collect() } else { vec![] };
                        for l in learned.iter().chain(initial.iter()) {
                            if !issued.contains_key(l) {
                                violation = Some(mk("if fewer than k nodes are returned every learned candidate was contacted", "c10:incomplete", format!("peer {l} was reported to the lookup at a requested distance but never contacted; result has {} of {k}", list.len())));
                            }
                        }
                    }
                }
            }
        }};
    }
    check_result!();
    let mut enabled: Vec<LEv> = vec![];
    if violation.is_none() && result.is_none() {
        let others = |p: usize| -> Vec<Vec<u8>> {
            let all: Vec<u8> = (0..cfg.n_peers as u8).filter(|i| *i as usize != p).collect();
            let mut sets: Vec<Vec<u8>> = vec![vec![]];
            for a in &all {
                sets.push(vec![*a]);
            }
            for (i, a) in all.iter().enumerate() {
                for b in &all[i + 1..] {
                    sets.push(vec![*a, *b]);
                }
            }
            sets.push(vec![p as u8]); // its own record
            for a in &all {
                sets.push(vec![100 + *a]); // a newer, endpoint-less record of another peer
            }
            if cfg.predicate_k.is_some() {
                for a in &all {
                    sets.push(vec![200 + *a]); // a newer record of another peer for which the predicate flips
                }
            }
            sets
        };
        for (p, _) in issued.iter() {
            if !answered.contains(p) && partial.contains_key(p) {
                // the second packet never comes
                enabled.push(LEv::Fail(*p as u8));
            } else if !answered.contains(p) {
                for s in others(*p) {
                    enabled.push(LEv::Resp(*p as u8, s));
                }
                if cfg.partial {
                    for a in (0..cfg.n_peers as u8).filter(|a| *a as usize != *p) {
                        enabled.push(LEv::Partial(*p as u8, a));
                    }
                }
                enabled.push(LEv::Fail(*p as u8));
            } else if hist.iter().filter(|e| matches!(e, LEv::Late(q) if *q as usize == *p)).count() == 0 {
                enabled.push(LEv::Late(*p as u8));
            }
        }
        for p in stale.keys() {
            if !hist.iter().any(|e| matches!(e, LEv::Stale(q) if *q as usize == *p)) {
                enabled.push(LEv::Stale(*p as u8));
            }
        }
        if issued.iter().any(|(p, (_, t, _))| !answered.contains(p) && now < *t + PEER_TIMEOUT) {
            enabled.push(LEv::IdlePeer);
        }
        enabled.push(LEv::IdleQuery);
    }
    // termination: drive the lookup to its end by the default policy (answer everything with
    // nothing new; let time pass); the API future must resolve with Ok exactly once
    let mut terminal = None;
    if violation.is_none() {
        let mut guard = 0;
        while result.is_none() && violation.is_none() {
            guard += 1;
            if guard > 40 {
                violation = Some(mk("every lookup terminates and hands its result to the caller", "c09:no-termination", "the lookup future did not resolve within 40 default steps incl. the query timeout".into()));
                break;
            }
            clock::advance(Duration::from_millis(10));
            let pending: Vec<usize> = issued.keys().filter(|p| !answered.contains(p)).copied().collect();
            if let Some(p) = pending.first() {
                let (id, _, distances) = issued[p].clone();
                let mut total = 1;
                if let Some(a) = partial.remove(p) {
                    // the (empty) second packet completes the answer
                    total = 2;
                    if distances.contains(&util::log2_distance(&ids[*p], &ids[a])) {
                        learned.insert(a);
                    }
                }
                answered.insert(*p);
                succeeded.insert(*p);
                successes += 1;
                let from = NodeAddress { socket_addr: sent_to.get(p).copied().unwrap_or_else(|| peers[*p].udp4_socket().unwrap().into()), node_id: ids[*p] };
                node.inject(HandlerOut::Response(from, Box::new(v::Response { id, body: v::ResponseBody::Nodes { total, nodes: vec![] } }))).await;
            } else if guard > 20 {
                cut_off = true;
                clock::advance(QUERY_TIMEOUT);
                node.inject(HandlerOut::ExpiredSessions(vec![])).await;
            } else {
                clock::advance(PEER_TIMEOUT);
                node.inject(HandlerOut::ExpiredSessions(vec![])).await;
            }
            for _ in 0..2 {
                node.inject(HandlerOut::ExpiredSessions(vec![])).await;
            }
            rt::settle().await;
            absorb!(usize::MAX);
        }
        check_result!();
        terminal = Some(format!("{:?}", result.as_ref().map(|r| r.len())));
    }
    let _ = (started, resolved_at);
    let inflight_view: Vec<(usize, bool)> = issued.iter().filter(|(p, _)| !answered.contains(p)).map(|(p, (_, t, _))| (*p, now < *t + PEER_TIMEOUT)).collect();
    let delivered: Vec<String> = hist.iter().filter(|e| matches!(e, LEv::Resp(..) | LEv::Stale(..) | LEv::Partial(..))).map(|e| format!("{:?}", e)).collect::<BTreeSet<_>>().into_iter().collect();
    let fp = mc::fp_of(&(issued.keys().collect::<Vec<_>>(), &answered, &succeeded, successes.min(par + 1), inflight_view, delivered, hist.iter().filter(|e| matches!(e, LEv::IdleQuery)).count(), result.as_ref().map(|r| r.len())));
    if let Some(x) = violation.as_mut() {
        x.replay = json!({"engine":"ssim","check":"lookup","cfg":format!("{:?}",cfg),"history":format!("{:?}",hist)});
    }
    if let Some(h) = handle {
        h.abort();
    }
    Outcome { fp, enabled: enabled.into_iter().map(|e| (e, 0)).collect(), obs_chain: chain, violation, counters, terminal, steps: hist.len() as u64 }
}

pub fn debug() {
    let cfgs = vec![
        LCfg { n_peers: 4, seeded: vec![0], parallelism: 1, predicate_k: None, prelude: 0, partial: false },
        LCfg { n_peers: 4, seeded: vec![0, 1, 2], parallelism: 2, predicate_k: None, prelude: 0, partial: false },
    ];
    for cfg in &cfgs {
        for _ in 0..3 {
            let a = rt::run(run_async(cfg, &[LEv::IdlePeer]));
            let b = rt::run(run_async(cfg, &[LEv::IdlePeer, LEv::Resp(0, vec![])]));
            eprintln!("{:?}: a.chain={:?} enabled={:?} b.chain={:?}", cfg.seeded, a.obs_chain, a.enabled.iter().map(|e| format!("{:?}", e.0)).collect::<Vec<_>>().len(), b.obs_chain);
        }
    }
}

pub struct LookupResult {
    pub states: u64,
    pub transitions: u64,
    pub executions: u64,
    pub counters: BTreeMap<&'static str, u64>,
    pub violations: Vec<Violation>,
    pub samples: Vec<serde_json::Value>,
    pub exhaustive: bool,
}

pub fn search(thorough: bool, budget: f64) -> LookupResult {
    let mut cfgs = vec![
        LCfg { n_peers: 4, seeded: vec![0], parallelism: 1, predicate_k: None, prelude: 0, partial: false },
        LCfg { n_peers: 4, seeded: vec![0, 1, 2], parallelism: 2, predicate_k: None, prelude: 0, partial: false },
        LCfg { n_peers: 4, seeded: vec![0, 1, 2, 3], parallelism: 3, predicate_k: Some(2), prelude: 0, partial: false },
        LCfg { n_peers: 4, seeded: vec![3, 1], parallelism: 1, predicate_k: Some(1), prelude: 0, partial: false },
    ];
    // a second lookup started while requests of an ended one are still outstanding at the handler
    cfgs.push(LCfg { n_peers: 3, seeded: vec![0, 1], parallelism: 2, predicate_k: None, prelude: 1, partial: false });
    cfgs.push(LCfg { n_peers: 3, seeded: vec![0, 1], parallelism: 2, predicate_k: Some(1), prelude: 2, partial: false });
    // answers that stop after the first of two packets
    cfgs.push(LCfg { n_peers: 3, seeded: vec![0], parallelism: 1, predicate_k: None, prelude: 0, partial: true });
    if thorough {
        cfgs.push(LCfg { n_peers: 4, seeded: vec![0, 1, 2], parallelism: 3, predicate_k: None, prelude: 2, partial: false });
        cfgs.push(LCfg { n_peers: 4, seeded: vec![0, 1, 2], parallelism: 2, predicate_k: Some(2), prelude: 1, partial: false });
        cfgs.push(LCfg { n_peers: 5, seeded: vec![0, 1, 2, 3, 4], parallelism: 2, predicate_k: Some(2), prelude: 0, partial: false });
        cfgs.push(LCfg { n_peers: 5, seeded: vec![4], parallelism: 3, predicate_k: None, prelude: 0, partial: false });
        cfgs.push(LCfg { n_peers: 5, seeded: vec![0, 2, 4], parallelism: 2, predicate_k: Some(3), prelude: 0, partial: false });
    }
    let depth = if thorough { 7 } else { 5 };
    let start = clock::wall();
    let per = budget / cfgs.len() as f64;
    let mut out = LookupResult { states: 0, transitions: 0, executions: 0, counters: BTreeMap::new(), violations: vec![], samples: vec![], exhaustive: true };
    for cfg in &cfgs {
        let remaining = (budget - (clock::wall() - start)).min(per * 2.0);
        if remaining < 1.0 {
            out.exhaustive = false;
            break;
        }
        let limits = Limits { max_budget: 0, max_depth: depth, max_states: 1_000_000, wall_s: remaining };
        let mut vio = vec![];
        let mut smp = vec![];
        let stats = mc::explore(&limits, |h: &[LEv]| rt::run(run_async(cfg, h)), |v, _| vio.push(v), |h, _| smp.push(format!("{:?}", h)));
        out.states += stats.states;
        out.transitions += stats.transitions;
        out.executions += stats.executions;
        out.exhaustive &= stats.exhaustive;
        for (k, v) in stats.counters {
            *out.counters.entry(k).or_insert(0) += v;
        }
        if let Some(s) = smp.into_iter().last() {
            out.samples.push(json!({"part":"service-level lookup","cfg":format!("{:?}",cfg),"history":s}));
        }
        out.violations.extend(vio);
    }
    out
}
