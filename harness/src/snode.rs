//! A real `Discv5` (service + routing table + public API) on top of a *scripted handler*:
//! the harness holds the other ends of the handler channels.
use crate::rt;
use crate::util;
use discv5::enr::{CombinedKey, NodeId};
use discv5::verif::{self as v, HandlerIn, HandlerOut};
use discv5::{ConfigBuilder, Discv5, Enr, Event, ListenConfig};
use std::net::SocketAddr;
use tokio::sync::{mpsc, oneshot};

pub struct SNode {
    pub discv5: Discv5,
    pub key: CombinedKey,
    pub id: NodeId,
    pub addr: SocketAddr,
    pub to_service: mpsc::Sender<HandlerOut>,
    pub from_service: Option<mpsc::UnboundedReceiver<HandlerIn>>,
    pub exit_rx: oneshot::Receiver<()>,
    pub events: Option<mpsc::Receiver<Event>>,
    pub handler_exited: bool,
}

pub struct SNodeSpec {
    pub keyno: u16,
    pub listen: ListenConfig,
    pub enr: Option<Enr>,
}

impl SNode {
    /// Builds and starts a `Discv5` whose `Handler::spawn` returns harness-held channel ends.
    pub async fn start(spec: SNodeSpec, configure: impl FnOnce(&mut ConfigBuilder), with_events: bool) -> SNode {
        let key = util::key(spec.keyno);
        let addr = match &spec.listen {
            ListenConfig::Ipv4 { ip, port } => SocketAddr::new((*ip).into(), *port),
            ListenConfig::Ipv6 { ip, port } => SocketAddr::new((*ip).into(), *port),
            ListenConfig::DualStack { ipv4, ipv4_port, .. } => SocketAddr::new((*ipv4).into(), *ipv4_port),
            // caller-supplied sockets: the record must come with the spec
            ListenConfig::FromSockets { .. } => SocketAddr::new(std::net::Ipv4Addr::LOCALHOST.into(), 0),
        };
        let enr = spec.enr.unwrap_or_else(|| util::enr4(&key, 1, addr));
        let mut b = ConfigBuilder::new(spec.listen);
        b.executor(Box::new(discv5::TokioExecutor));
        b.auto_nat_listen_duration(None);
        configure(&mut b);
        let cfg = b.build();
        let mut discv5 = Discv5::new(enr.clone(), util::key(spec.keyno), cfg).expect("discv5");
        let (exit_tx, exit_rx) = oneshot::channel();
        let (handler_send, from_service) = mpsc::unbounded_channel();
        let (to_service, handler_recv) = mpsc::channel(50);
        v::set_scripted_handler((exit_tx, handler_send, handler_recv));
        discv5.start().await.expect("start");
        rt::settle().await;
        let mut node = SNode { id: enr.node_id(), discv5, key, addr, to_service, from_service: Some(from_service), exit_rx, events: None, handler_exited: false };
        if with_events {
            let h = tokio::spawn(node.discv5.event_stream());
            rt::settle().await;
            if !h.is_finished() {
                crate::mc::machinery("event_stream() did not resolve");
            }
            node.events = Some(h.await.unwrap().expect("event stream"));
        }
        node
    }

    /// A report from the (scripted) handler to the service.
    pub async fn inject(&mut self, ev: HandlerOut) {
        if self.to_service.try_send(ev).is_err() {
            // a service task that panicked closes the channel: that is the subject's failure
            crate::mc::check_subject_panic();
            crate::mc::machinery("scripted handler channel full or closed");
        }
        rt::settle().await;
    }

    pub fn try_inject(&mut self, ev: HandlerOut) -> bool {
        self.to_service.try_send(ev).is_ok()
    }

    /// Everything the service asked its handler to do since the last call.
    pub fn drain_handler_in(&mut self) -> Vec<HandlerIn> {
        let mut out = vec![];
        if let Some(rx) = self.from_service.as_mut() {
            while let Ok(x) = rx.try_recv() {
                out.push(x);
            }
        }
        // emulate the real handler: it exits (and drops its receiver) when told to
        if !self.handler_exited {
            if !matches!(self.exit_rx.try_recv(), Err(oneshot::error::TryRecvError::Empty)) {
                self.handler_exited = true;
                self.from_service = None;
            }
        }
        out
    }

    pub fn drain_events(&mut self) -> Vec<Event> {
        let mut out = vec![];
        if let Some(rx) = self.events.as_mut() {
            while let Ok(x) = rx.try_recv() {
                out.push(x);
            }
        }
        out
    }
}
