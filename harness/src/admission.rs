//! C12 (service level): routing-table admission and update policy, on a real Discv5 with a
//! scripted handler.
use crate::clock;
use crate::mc::{self, Limits, Outcome, Report, Violation};
use crate::rt;
use crate::snode::{SNode, SNodeSpec};
use crate::util;
use discv5::enr::NodeId;
use discv5::verif::{self as v, HandlerIn, HandlerOut};
use std::net::SocketAddr as _SA;
use discv5::{Enr, IpMode, ListenConfig, NodeAddress};
use serde_json::json;
use std::collections::{BTreeMap, BTreeSet, HashMap};
use std::net::{Ipv4Addr, Ipv6Addr, SocketAddr};

const LOCAL: u16 = 80;
const KEYS: [u16; 2] = [81, 82];

/// Key number of a third peer B for the three-peer lookup world: peers 0 (A) and 1 (X) differ first
/// in bit h; B also differs from A first in bit h, and with the lookup target T = A with bit h-1
/// flipped the peers are ordered A, B, X by distance to T (so a lookup with parallelism 1 dials A,
/// then B, then X) while X's record is at a distance requested from A.
fn third_key() -> u16 {
    static K: std::sync::OnceLock<u16> = std::sync::OnceLock::new();
    *K.get_or_init(|| {
        let a = util::node_id(&util::key(KEYS[0])).raw();
        let x = util::node_id(&util::key(KEYS[1])).raw();
        let xor = |p: &[u8; 32], q: &[u8; 32]| -> [u8; 32] { let mut o = [0u8; 32]; for i in 0..32 { o[i] = p[i] ^ q[i]; } o };
        let top = |d: &[u8; 32]| -> Option<usize> { (0..256usize).rev().find(|b| (d[31 - b / 8] >> (b % 8)) & 1 == 1) };
        let ax = xor(&a, &x);
        let h = top(&ax).unwrap_or(255);
        let mut e = [0u8; 32];
        let bit = h.saturating_sub(1);
        e[31 - bit / 8] |= 1 << (bit % 8);
        for n in 83u16..250 {
            let b = util::node_id(&util::key(n)).raw();
            let ab = xor(&a, &b);
            if top(&ab) != Some(h) {
                continue;
            }
            // big-endian comparison of the distances to T
            if xor(&ab, &e) < xor(&ax, &e) {
                return n;
            }
        }
        crate::mc::machinery("admission: no third key found")
    })
}
fn key_of(k: usize) -> u16 {
    if k < 2 { KEYS[k] } else { third_key() }
}

#[derive(Clone, Debug, PartialEq, Eq, Hash)]
pub enum AEv {
    Established(u8, u8, bool),
    Unverifiable(u8),
    AddEnr(u8, u8),
    AddLocal,
    Remove(u8),
    Disconnect(u8),
    Lookup(u8),
    /// peer k answers its oldest lookup FINDNODE with a NODES packet holding (key, shape)
    Nodes(u8, u8, u8),
    /// ... holding the local node's own record
    NodesLocal(u8),
    /// peer k answers its oldest ENR request (FINDNODE [0]) with its own record in `shape`
    EnrAnswer(u8, u8),
    /// peer k answers its oldest PING with the given sequence number
    Pong(u8, u64),
    Fail(u8),
    /// peer k answers its oldest outstanding request with WHOAREYOU: the handler reports the
    /// session with the record of the contact the service dialled (what `handle_challenge` does)
    Challenge(u8),
}

#[derive(Clone, Debug)]
pub struct ACfg {
    pub mode: u8,   // 0 Ip4, 1 Ip6, 2 DualStack
    pub filter: u8, // 0 accept all, 1 reject records carrying the marker, 2 accept only 10.0.0.0/8
    pub shapes: Vec<u8>,
    pub seed: Vec<AEv>,
    /// query parallelism (None: the default 3)
    pub parallelism: Option<usize>,
    /// number of peers that take part (2; 3 in the three-peer lookup world)
    pub peers: u8,
}

fn filter_marker(e: &Enr) -> bool {
    e.get_decodable::<u8>("reject").is_none()
}
fn filter_slash8(e: &Enr) -> bool {
    e.ip4().map(|ip| ip.octets()[0] == 10).unwrap_or(true)
}
fn filter_all(_: &Enr) -> bool {
    true
}

fn filter_fn(f: u8) -> fn(&Enr) -> bool {
    match f {
        1 => filter_marker,
        2 => filter_slash8,
        _ => filter_all,
    }
}

/// Record shapes: (seq, v4?, v6?, marker, other /8, mapped v6)
pub fn shape_record(keyno: u16, shape: u8) -> Enr {
    thread_local! {
        static CACHE: std::cell::RefCell<HashMap<(u16, u8), Enr>> = std::cell::RefCell::new(HashMap::new());
    }
    CACHE.with(|c| {
        c.borrow_mut()
            .entry((keyno, shape))
            .or_insert_with(|| {
                let k = util::key(keyno);
                let last = keyno as u8;
                let mut b = Enr::builder();
                let v4 = |b: &mut discv5::enr::Builder<discv5::enr::CombinedKey>, first: u8, port: u16| {
                    b.ip4(Ipv4Addr::new(first, 0, 0, last));
                    b.udp4(port);
                };
                let v6 = |b: &mut discv5::enr::Builder<discv5::enr::CombinedKey>, ip: Ipv6Addr| {
                    b.ip6(ip);
                    b.udp6(9006);
                };
                match shape {
                    0 => { b.seq(1); v4(&mut b, 10, 9000); }
                    1 => { b.seq(2); v4(&mut b, 10, 9001); }
                    2 => { b.seq(2); v6(&mut b, Ipv6Addr::new(0x2001, 0xdb8, 0, 0, 0, 0, 0, last as u16)); }
                    3 => { b.seq(3); v4(&mut b, 10, 9000); v6(&mut b, Ipv6Addr::new(0x2001, 0xdb8, 0, 0, 0, 0, 0, last as u16)); }
                    4 => { b.seq(4); }
                    5 => { b.seq(4); v6(&mut b, Ipv4Addr::new(10, 0, 0, last).to_ipv6_mapped()); }
                    6 => { b.seq(5); v4(&mut b, 10, 9000); b.add_value("reject", &1u8); }
                    7 => { b.seq(5); v4(&mut b, 172, 9000); }
                    _ => { b.seq(1); v4(&mut b, 10, 9000); }
                }
                b.build(&k).expect("record")
            })
            .clone()
    })
}

struct Outstanding {
    lookups: Vec<(v::RequestId, Vec<u64>)>,
    enr_reqs: Vec<v::RequestId>,
    pings: Vec<v::RequestId>,
}

async fn run_async(cfg: &ACfg, hist: &[AEv]) -> Outcome<AEv> {
    let listen = match cfg.mode {
        0 => ListenConfig::Ipv4 { ip: Ipv4Addr::new(10, 0, 0, LOCAL as u8), port: 9000 },
        1 => ListenConfig::Ipv6 { ip: Ipv6Addr::new(0x2001, 0xdb8, 0, 0, 0, 0, 0, LOCAL), port: 9006 },
        _ => ListenConfig::DualStack { ipv4: Ipv4Addr::new(10, 0, 0, LOCAL as u8), ipv4_port: 9000, ipv6: Ipv6Addr::new(0x2001, 0xdb8, 0, 0, 0, 0, 0, LOCAL), ipv6_port: 9006 },
    };
    let mode = match cfg.mode {
        0 => IpMode::Ip4,
        1 => IpMode::Ip6,
        _ => IpMode::DualStack,
    };
    let filt = filter_fn(cfg.filter);
    let local_enr = shape_record(LOCAL, 3);
    let mut node = SNode::start(SNodeSpec { keyno: LOCAL, listen, enr: Some(local_enr.clone()) }, |b| {
        b.table_filter(filt);
        if let Some(p) = cfg.parallelism {
            b.query_parallelism(p);
        }
    }, false).await;
    let ids: Vec<NodeId> = (0..3).map(|k| util::node_id(&util::key(key_of(k)))).collect();
    let mut out: Vec<Outstanding> = (0..3).map(|_| Outstanding { lookups: vec![], enr_reqs: vec![], pings: vec![] }).collect();
    let mut admitted: BTreeSet<usize> = BTreeSet::new(); // keys with an Established / add_enr in the history
    let mut lookups: Vec<tokio::task::JoinHandle<Result<Vec<Enr>, discv5::QueryError>>> = vec![];
    let mut sent_to: BTreeMap<Vec<u8>, SocketAddr> = BTreeMap::new();
    // per request: the record of the contact the service dialled, and the sequence number the table
    // stored for that node when the request was issued
    let mut dialled: BTreeMap<Vec<u8>, (Option<Enr>, Option<u64>)> = BTreeMap::new();
    // provenance of records: delivered in a NODES answer / vouched for by a session report or the user
    let mut from_nodes: BTreeSet<Vec<u8>> = BTreeSet::new();
    let mut from_sessions: BTreeSet<Vec<u8>> = BTreeSet::new();
    let mut chain = vec![];
    let mut prev = None;
    let mut violation: Option<Violation> = None;
    let mut counters: BTreeMap<&'static str, u64> = BTreeMap::new();
    let src_of = |e: &Enr, k: usize| -> SocketAddr {
        util::ref_contactable(&mode, e).unwrap_or_else(|| util::v4(10, 0, 0, key_of(k) as u8, 9000))
    };
    let full: Vec<AEv> = cfg.seed.iter().cloned().chain(hist.iter().cloned()).collect();
    let hist = &full[..];
    let seed_len = cfg.seed.len();
    for (step, ev) in hist.iter().enumerate() {
        if step + 1 == hist.len() {
            counters.clear();
        }
        clock::advance(std::time::Duration::from_millis(10));
        let before: HashMap<NodeId, Enr> = node.discv5.table_entries().into_iter().map(|(id, e, _)| (id, e)).collect();
        let mut learnt_from_nodes = false;
        let mut challenge: Option<(Enr, Option<u64>)> = None;
        match ev {
            AEv::Established(k, s, outgoing) => {
                let e = shape_record(key_of(*k as usize), *s);
                admitted.insert(*k as usize);
                from_sessions.insert(alloy_rlp::encode(&e));
                let dir = if *outgoing { v::ConnectionDirection::Outgoing } else { v::ConnectionDirection::Incoming };
                node.inject(HandlerOut::Established(e.clone(), src_of(&e, *k as usize), dir)).await;
            }
            AEv::Unverifiable(k) => {
                let e = shape_record(key_of(*k as usize), 1);
                node.inject(HandlerOut::UnverifiableEnr { enr: e.clone(), socket: util::v4(192, 0, 2, 7, 1), node_id: ids[*k as usize] }).await;
            }
            AEv::AddEnr(k, s) => {
                let e = shape_record(key_of(*k as usize), *s);
                from_sessions.insert(alloy_rlp::encode(&e));
                if node.discv5.add_enr(e).is_ok() {
                    admitted.insert(*k as usize);
                }
            }
            AEv::AddLocal => {
                let _ = node.discv5.add_enr(node.discv5.local_enr());
            }
            AEv::Remove(k) => {
                node.discv5.remove_node(&ids[*k as usize]);
            }
            AEv::Disconnect(k) => {
                node.discv5.disconnect_node(&ids[*k as usize]);
            }
            AEv::Lookup(k) if *k == 2 => {
                // a target to which peer 0 is closer than peer 1, and such that peer 1's record is at a
                // distance requested from peer 0: peer 0's id with the bit below the highest bit in
                // which the two peers differ flipped
                let (a, x) = (ids[0].raw(), ids[1].raw());
                let hi = (0..256usize).rev().find(|b| ((a[31 - b / 8] ^ x[31 - b / 8]) >> (b % 8)) & 1 == 1).unwrap_or(255);
                let mut t = a;
                let b = hi.saturating_sub(1);
                t[31 - b / 8] ^= 1 << (b % 8);
                lookups.push(tokio::spawn(node.discv5.find_node(NodeId::new(&t))));
                rt::settle().await;
            }
            AEv::Lookup(k) => {
                // a lookup whose target is key k, so that k's record is at a requested distance of the other peer
                lookups.push(tokio::spawn(node.discv5.find_node(ids[*k as usize])));
                rt::settle().await;
            }
            AEv::Challenge(k) => {
                let o = &out[*k as usize];
                let id = if !o.lookups.is_empty() { o.lookups[0].0.clone() } else if !o.enr_reqs.is_empty() { o.enr_reqs[0].clone() } else { o.pings[0].clone() };
                if let Some((Some(rec), at_issue)) = dialled.get(&id.0).cloned() {
                    admitted.insert(*k as usize);
                    challenge = Some((rec.clone(), at_issue));
                    let to = sent_to.get(&id.0).copied().unwrap_or_else(|| src_of(&rec, *k as usize));
                    node.inject(HandlerOut::Established(rec, to, v::ConnectionDirection::Outgoing)).await;
                }
            }
            AEv::Nodes(k, rk, s) => {
                let (id, _d) = out[*k as usize].lookups.remove(0);
                let rec = shape_record(key_of(*rk as usize), *s);
                from_nodes.insert(alloy_rlp::encode(&rec));
                learnt_from_nodes = true;
                // a real handler only reports a response that came from the address the request went to
                let from = NodeAddress { socket_addr: sent_to.get(&id.0).copied().unwrap_or_else(|| src_of(&before.get(&ids[*k as usize]).cloned().unwrap_or_else(|| shape_record(key_of(*k as usize), 0)), *k as usize)), node_id: ids[*k as usize] };
                node.inject(HandlerOut::Response(from, Box::new(v::Response { id, body: v::ResponseBody::Nodes { total: 1, nodes: vec![rec] } }))).await;
            }
            AEv::NodesLocal(k) => {
                let (id, _d) = out[*k as usize].lookups.remove(0);
                learnt_from_nodes = true;
                // a real handler only reports a response that came from the address the request went to
                let from = NodeAddress { socket_addr: sent_to.get(&id.0).copied().unwrap_or_else(|| src_of(&before.get(&ids[*k as usize]).cloned().unwrap_or_else(|| shape_record(key_of(*k as usize), 0)), *k as usize)), node_id: ids[*k as usize] };
                node.inject(HandlerOut::Response(from, Box::new(v::Response { id, body: v::ResponseBody::Nodes { total: 1, nodes: vec![node.discv5.local_enr()] } }))).await;
            }
            AEv::EnrAnswer(k, s) => {
                let id = out[*k as usize].enr_reqs.remove(0);
                let rec = shape_record(key_of(*k as usize), *s);
                from_nodes.insert(alloy_rlp::encode(&rec));
                learnt_from_nodes = true;
                // a real handler only reports a response that came from the address the request went to
                let from = NodeAddress { socket_addr: sent_to.get(&id.0).copied().unwrap_or_else(|| src_of(&before.get(&ids[*k as usize]).cloned().unwrap_or_else(|| shape_record(key_of(*k as usize), 0)), *k as usize)), node_id: ids[*k as usize] };
                node.inject(HandlerOut::Response(from, Box::new(v::Response { id, body: v::ResponseBody::Nodes { total: 1, nodes: vec![rec] } }))).await;
            }
            AEv::Pong(k, seq) => {
                let id = out[*k as usize].pings.remove(0);
                // a real handler only reports a response that came from the address the request went to
                let from = NodeAddress { socket_addr: sent_to.get(&id.0).copied().unwrap_or_else(|| src_of(&before.get(&ids[*k as usize]).cloned().unwrap_or_else(|| shape_record(key_of(*k as usize), 0)), *k as usize)), node_id: ids[*k as usize] };
                node.inject(HandlerOut::Response(from, Box::new(v::Response { id, body: v::ResponseBody::Pong { enr_seq: *seq, ip: Ipv4Addr::new(10, 0, 0, LOCAL as u8).into(), port: 9000u16.try_into().unwrap() } }))).await;
            }
            AEv::Fail(k) => {
                let o = &mut out[*k as usize];
                let id = if !o.lookups.is_empty() { o.lookups.remove(0).0 } else if !o.enr_reqs.is_empty() { o.enr_reqs.remove(0) } else { o.pings.remove(0) };
                node.inject(HandlerOut::RequestFailed(id, discv5::RequestError::Timeout)).await;
            }
        }
        rt::settle().await;
        for hin in node.drain_handler_in() {
            if let HandlerIn::Request(contact, req) = hin {
                sent_to.insert(req.id.0.clone(), contact.socket_addr());
                let stored = node.discv5.table_entries().into_iter().find(|(id, _, _)| *id == contact.node_id()).map(|(_, e, _)| e.seq());
                dialled.insert(req.id.0.clone(), (contact.enr(), stored));
                if let Some(k) = ids.iter().position(|i| *i == contact.node_id()) {
                    match &req.body {
                        v::RequestBody::FindNode { distances } if distances == &vec![0] => out[k].enr_reqs.push(req.id.clone()),
                        v::RequestBody::FindNode { distances } => out[k].lookups.push((req.id.clone(), distances.clone())),
                        v::RequestBody::Ping { .. } => out[k].pings.push(req.id.clone()),
                        _ => {}
                    }
                }
            }
        }
        // oracle
        let after = node.discv5.table_entries();
        let mk = |clause: &str, key: &str, detail: String| {
            let mut x = Violation { clause: clause.into(), key: key.into(), detail, replay: json!(null) };
            x.replay = json!({"engine":"ssim","check":"C12","cfg":format!("{:?}",cfg),"history":format!("{:?}",&hist[..=step])});
            x
        };
        for (id, e, _st) in &after {
            if *id == node.id {
                violation = Some(mk("an entry is never the local node", "admit:local", "local id in the table".into()));
            }
            if util::ref_contactable(&mode, e).is_none() {
                violation = Some(mk("every entry is contactable in the node's IP mode", "admit:uncontactable", format!("{} stored with record {}", util::short(id), e)));
            }
            if !filt(e) {
                violation = Some(mk("every entry passes the configured table filter", "admit:filter", format!("{} stored although the filter rejects its record (after {:?})", util::short(id), ev)));
            }
            let k = ids.iter().position(|i| i == id);
            match k {
                Some(k) if admitted.contains(&k) => {}
                _ => violation = Some(mk("a node becomes an entry only through an established session or an explicit add", "admit:provenance", format!("{} in the table without session or add (after {:?})", util::short(id), ev))),
            }
            if learnt_from_nodes {
                if let Some(old) = before.get(id) {
                    if old != e {
                        *counters.entry("replaced_by_nodes").or_insert(0) += 1;
                        if e.node_id() != *id || e.seq() <= old.seq() {
                            violation = Some(mk("a record learnt from the network replaces a stored one only with a strictly higher sequence number", "admit:replace-seq", format!("seq {} replaced by seq {}", old.seq(), e.seq())));
                        }
                    }
                }
            }
            if e.node_id() != *id {
                violation = Some(mk("an entry's record belongs to its node id", "admit:foreign-record", format!("{}", util::short(id))));
            }
            // a PONG carries no record: it never lowers the sequence number of a stored record
            if matches!(ev, AEv::Pong(..)) {
                if let Some(old) = before.get(id) {
                    if e.seq() < old.seq() {
                        violation = Some(mk("a record learnt from the network replaces a stored one only with a strictly higher sequence number", "admit:replace-seq", format!("{}: stored seq {} replaced by seq {} on a PONG", util::short(id), old.seq(), e.seq())));
                    }
                }
            }
            // a session reported with the record the service itself dialled: when that record is known
            // only from a NODES answer (no session report or user call ever carried it) and the service
            // stored a newer one at the time it dialled, it must not replace the stored one
            if let Some((rec, Some(at_issue))) = &challenge {
                let enc = alloy_rlp::encode(rec);
                if rec.node_id() == *id && from_nodes.contains(&enc) && !from_sessions.contains(&enc) {
                    *counters.entry("challenges_on_stored_nodes").or_insert(0) += 1;
                    if let Some(old) = before.get(id) {
                        if e.seq() < old.seq() && rec.seq() < *at_issue {
                            violation = Some(mk("a record learnt from the network replaces a stored one only with a strictly higher sequence number", "admit:replace-seq", format!("{}: stored seq {} replaced by seq {} — the service dialled the node with a record older than the one it stored (seq {} at the time)", util::short(id), old.seq(), e.seq(), at_issue)));
                        }
                    }
                }
            }
        }
        *counters.entry("entries_checked").or_insert(0) += after.len() as u64;
        let mut view: Vec<(NodeId, u64, bool)> = after.iter().map(|(id, e, s)| (*id, e.seq(), s.is_connected())).collect();
        view.sort_by_key(|x| x.0.raw());
        if step >= seed_len {
            let c = mc::chain(prev, &format!("{:?}", view));
            chain.push(c);
            prev = Some(c);
        }
        if violation.is_some() {
            break;
        }
    }
    let mut enabled = vec![];
    if violation.is_none() {
        for k in 0..cfg.peers {
            for s in &cfg.shapes {
                enabled.push(AEv::Established(k, *s, k == 0));
                enabled.push(AEv::AddEnr(k, *s));
            }
            enabled.push(AEv::Unverifiable(k));
            enabled.push(AEv::Remove(k));
            enabled.push(AEv::Disconnect(k));
            let o = &out[k as usize];
            if !o.lookups.is_empty() {
                for rk in 0..2u8 {
                    for s in &cfg.shapes {
                        enabled.push(AEv::Nodes(k, rk, *s));
                    }
                }
                enabled.push(AEv::NodesLocal(k));
            }
            if !o.enr_reqs.is_empty() {
                for s in &cfg.shapes {
                    enabled.push(AEv::EnrAnswer(k, *s));
                }
            }
            if !o.pings.is_empty() {
                enabled.push(AEv::Pong(k, 1));
                enabled.push(AEv::Pong(k, 9));
            }
            if !o.lookups.is_empty() || !o.enr_reqs.is_empty() || !o.pings.is_empty() {
                enabled.push(AEv::Fail(k));
                enabled.push(AEv::Challenge(k));
            }
            if lookups.len() < 1 {
                enabled.push(AEv::Lookup(k));
            }
        }
        enabled.push(AEv::AddLocal);
    }
    let mut view: Vec<(NodeId, Enr, bool, bool)> = node.discv5.table_entries().into_iter().map(|(id, e, s)| (id, e, s.is_connected(), s.is_incoming())).collect();
    view.sort_by_key(|x| x.0.raw());
    let fp = mc::fp_of(&(
        view.iter().map(|(id, e, c, i)| (id.raw(), alloy_rlp::encode(e), *c, *i)).collect::<Vec<_>>(),
        out.iter().map(|o| (o.lookups.len().min(2), o.enr_reqs.len().min(2), o.pings.len().min(2))).collect::<Vec<_>>(),
        &admitted,
        lookups.len(),
    ));
    for l in lookups {
        l.abort();
    }
    Outcome { fp, enabled: enabled.into_iter().map(|e| (e, 0)).collect(), obs_chain: chain, violation, counters, terminal: None, steps: full.len() as u64 }
}

/* ------------------------------------------------------------------------------------ */
/* Handler level: an incoming session is reported as established only if the address in   */
/* the record equals the address the packets came from (single stack, IPv4 and IPv6)      */
/* ------------------------------------------------------------------------------------ */

async fn handshake_case(ipv6: bool, src_variant: u8, rec_variant: u8) -> Result<(bool, bool), Violation> {
    use crate::hsim::{Ev, HCfg, Monitors, NoDriver, World};
    use discv5::verif::VPacket;
    use discv5::NodeContact;
    let cfg = HCfg { nodes: 1, ipv6, ..Default::default() };
    let mut w = World::build(&cfg, Monitors { c03: false, c04: false, c13: false, c15: false, c19: false, c20: false }).await;
    let d = NoDriver;
    let mkey = util::key(170);
    let mid = util::node_id(&mkey);
    let sock = |ip_last: u16, port: u16| -> SocketAddr {
        if ipv6 { SocketAddr::new(Ipv6Addr::new(0x2001, 0xdb8, 0, 0, 0, 0, 0, ip_last).into(), port) } else { SocketAddr::new(Ipv4Addr::new(10, 0, 0, ip_last as u8).into(), port) }
    };
    let src = match src_variant {
        0 => sock(0x70, 30303),
        _ => sock(0x70, 1), // lowest port
    };
    // record address relative to the source
    let rec_addr: Option<SocketAddr> = match rec_variant {
        0 => Some(src),                                   // equal
        1 => Some(SocketAddr::new(src.ip(), src.port().wrapping_add(1).max(2))), // same ip, other port
        2 => Some(sock(0x71, src.port())),               // other ip, same port
        3 => None,                                        // no address of this family
        _ => Some(sock(0x71, 9)),                         // both differ
    };
    let mut spec = util::EnrSpec { seq: 3, ..Default::default() };
    match rec_addr {
        Some(SocketAddr::V4(a)) => spec.ip4 = Some((*a.ip(), a.port())),
        Some(SocketAddr::V6(a)) => spec.ip6 = Some((*a.ip(), a.port())),
        None => {
            // an address of the *other* family only: irrelevant to a single-stack check
            if ipv6 { spec.ip4 = Some((Ipv4Addr::new(10, 0, 0, 0x70), 30303)) } else { spec.ip6 = Some((Ipv6Addr::new(0x2001, 0xdb8, 0, 0, 0, 0, 0, 0x70), 30303)) }
        }
    }
    let rec = util::enr(&mkey, &spec);
    // 1. a message from M, 2. the application knows nothing, 3. V's WHOAREYOU, 4. M's handshake
    let p = VPacket::new_random(&mid);
    let bytes = p.clone().encode(&w.nodes[0].id);
    w.deliver_raw(0, src, &bytes, 0, p.message_nonce, -1).await;
    w.absorb().await;
    if w.nodes[0].way_queries.is_empty() {
        return Err(Violation { clause: "harness".into(), key: "c12h:no-query".into(), detail: "no who-are-you query".into(), replay: json!(null) });
    }
    w.step(&Ev::AnsWay(0, false), &d).await;
    let chal = w.snap(0).and_then(|s| s.challenges.first().cloned());
    let chal = match chal {
        Some(c) => c,
        None => return Err(Violation { clause: "harness".into(), key: "c12h:no-challenge".into(), detail: "no challenge".into(), replay: json!(null) }),
    };
    let mode = if ipv6 { IpMode::Ip6 } else { IpMode::Ip4 };
    let vcontact = NodeContact::try_from_enr(w.nodes[0].enr.clone(), mode).expect("contact");
    let msg = v::Request { id: v::RequestId(vec![7]), body: v::RequestBody::Ping { enr_seq: 3 } }.encode();
    let (hp, _, _) = v::encrypt_with_header(&vcontact, util::key(170), Some(rec.clone()), &mid, &chal.challenge_data, &msg).expect("handshake");
    let nonce = hp.message_nonce;
    let hb = hp.encode(&w.nodes[0].id);
    for e in w.last_raw.iter_mut() {
        e.clear();
    }
    w.deliver_raw(0, src, &hb, 2, nonce, -1).await;
    w.absorb().await;
    let established = w.last_raw[0].iter().any(|r| matches!(r, HandlerOut::Established(e, a, v::ConnectionDirection::Incoming) if e.node_id() == mid && *a == src));
    let unverifiable = w.last_raw[0].iter().any(|r| matches!(r, HandlerOut::UnverifiableEnr { node_id, .. } if *node_id == mid));
    Ok((established, unverifiable))
}

fn handler_level(rep: &mut Report, found: &mut Vec<Violation>) {
    let mut cases = 0u64;
    let mut est = 0u64;
    for ipv6 in [false, true] {
        for src_variant in 0..2u8 {
            for rec_variant in 0..5u8 {
                cases += 1;
                match rt::run(handshake_case(ipv6, src_variant, rec_variant)) {
                    Ok((established, unverifiable)) => {
                        let want = rec_variant == 0 || rec_variant == 3;
                        if established {
                            est += 1;
                        }
                        if established != want || unverifiable == want {
                            found.push(Violation {
                                clause: "in single-stack operation an incoming session admits a node only if the UDP address in its record equals the address its packets came from".into(),
                                key: format!("admit:session-address:{}", if established { "established" } else { "refused" }),
                                detail: format!("{} handler, record address variant {rec_variant} (0 equal, 1 same ip other port, 2 other ip same port, 3 none of this family, 4 both differ), source variant {src_variant}: Established={established} UnverifiableEnr={unverifiable}, expected Established={want}", if ipv6 { "IPv6" } else { "IPv4" }),
                                replay: json!({"engine":"hsim","driver":"c12-handshake","ipv6":ipv6,"src_variant":src_variant,"rec_variant":rec_variant}),
                            });
                        }
                    }
                    Err(v) => found.push(v),
                }
            }
        }
    }
    rep.set("handler_level_handshake_cases", cases);
    rep.set("handler_level_established", est);
}

pub fn run() {
    let mut rep = Report::new("C12", "model_checking");
    let thorough = rep.thorough();
    let mut cfgs = vec![];
    for mode in 0..3u8 {
        for filter in 0..3u8 {
            let shapes: Vec<u8> = if thorough { (0..8).collect() } else {
                match filter {
                    1 => vec![0, 2, 4, 6],
                    2 => vec![0, 3, 5, 7],
                    _ => vec![0, 1, 2, 3, 4, 5],
                }
            };
            cfgs.push(ACfg { mode, filter, shapes: shapes.clone(), seed: vec![], parallelism: None, peers: 2 });
            // from a populated table with a lookup in flight
            let s0 = shapes[0];
            let s1 = if mode == 1 { 2 } else { s0 };
            cfgs.push(ACfg { mode, filter, shapes, seed: vec![AEv::Established(0, s1, true), AEv::Established(1, s1, false), AEv::Lookup(1)], parallelism: None, peers: 2 });
            // three peers, lookup with parallelism 1 dialling A, then B, then X; A's answer has already
            // named X (not yet an entry) with an old record
            if filter == 0 && mode != 1 {
                let shapes: Vec<u8> = cfgs.last().unwrap().shapes.clone();
                cfgs.push(ACfg { mode, filter, shapes, seed: vec![AEv::Established(0, s1, true), AEv::Established(2, s1, true), AEv::Lookup(2), AEv::Nodes(0, 1, s0)], parallelism: Some(1), peers: 3 });
            }
        }
    }
    let depth = if thorough { 4 } else { 3 };
    let budget = mc::budget(thorough, 50.0, 1.0);
    let start = clock::wall();
    let (mut states, mut trans, mut execs) = (0u64, 0u64, 0u64);
    let mut counters: BTreeMap<&'static str, u64> = BTreeMap::new();
    let mut exhaustive = true;
    let mut caps = vec![];
    let mut found = vec![];
    let per = budget / cfgs.len() as f64;
    for cfg in &cfgs {
        let remaining = (budget - (clock::wall() - start)).min(per * 2.0);
        if remaining < 1.0 {
            exhaustive = false;
            caps.push("wall budget".to_string());
            break;
        }
        let limits = Limits { max_budget: 0, max_depth: depth, max_states: 2_000_000, wall_s: remaining };
        let mut vio = vec![];
        let mut samples = vec![];
        let stats = mc::explore(&limits, |h: &[AEv]| rt::run(run_async(cfg, h)), |v, _| vio.push(v), |h, _| samples.push(format!("{:?}", h)));
        states += stats.states;
        trans += stats.transitions;
        execs += stats.executions;
        for (k, v) in stats.counters {
            *counters.entry(k).or_insert(0) += v;
        }
        if !stats.exhaustive {
            exhaustive = false;
            caps.push(format!("{:?}: {}", cfg, stats.cap.unwrap_or_default()));
        }
        if let Some(s) = samples.into_iter().last() {
            rep.sample(json!({"cfg":format!("{:?}",cfg),"history":s}));
        }
        found.extend(vio);
    }
    handler_level(&mut rep, &mut found);
    // nodes built from caller-supplied sockets
    let (fs_cases, fs_skipped, fs_vio) = crate::ssim::c12_from_sockets();
    rep.set("from_sockets_cases", fs_cases);
    rep.set("from_sockets_cases_skipped_no_loopback", fs_skipped);
    found.extend(fs_vio);
    // the same handler-level clause on every `Established(Incoming)` of the attacker worlds
    let (ast, avio, _) = crate::attack::explore("C12", thorough, mc::budget(thorough, 20.0, 0.2), if thorough { 3 } else { 2 });
    rep.set("attacker_worlds_states", ast.states);
    rep.set("attacker_worlds_incoming_established", ast.counters.get("incoming_established").copied().unwrap_or(0));
    if !ast.exhaustive {
        exhaustive = false;
        caps.push(format!("attacker worlds: {}", ast.cap.clone().unwrap_or_default()));
    }
    found.extend(avio);
    rep.set("states", states);
    rep.set("transitions", trans);
    rep.set("traces_validated_against_impl", execs);
    rep.set("evaluations", execs);
    rep.set("distinct_nontrivial", states);
    rep.set("depth_bound", depth as u64);
    rep.set("configurations", cfgs.len() as u64);
    rep.set("exhaustive", exhaustive);
    if !caps.is_empty() {
        rep.set("caps", json!(caps));
    }
    for (k, v) in &counters {
        rep.set(&format!("activations_{k}"), *v);
    }
    rep.set("rule", "explicit-state BFS over histories of scripted handler reports (Established with 8 record shapes, UnverifiableEnr, NODES answers to lookup requests and to ENR requests with 8 record shapes incl. the local record, PONG with lower/higher seq, RequestFailed) and user calls (add_enr incl. the local record, remove_node, disconnect_node, find_node) on a real Discv5, for every IP mode × 3 table filters; oracle over table_entries() after every step");
    rep.assume("the single-stack address clause is decided at the handler (Established vs UnverifiableEnr): a real IPv4 and a real IPv6 handler each receive a correctly signed handshake from a crafted peer under its own id for every combination of 2 source addresses × 5 record-address variants");
    for v in found {
        rep.violation(v);
    }
    if counters.get("entries_checked").copied().unwrap_or(0) == 0 || counters.get("replaced_by_nodes").copied().unwrap_or(0) == 0 {
        rep.vacuous("C12 vacuous (no table entries or no NODES-driven replacement)");
    }
    rep.finish();
}
