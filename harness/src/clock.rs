//! Clock seam: the harness binary defines `clock_gettime`, so `CLOCK_MONOTONIC` (std `Instant`,
//! tokio timers) is a thread-local, frozen, harness-advanced counter. Other clock ids go to the
//! kernel. The clock never goes backwards and starts at 1000 s.
use std::cell::Cell;
use std::time::{Duration, Instant};

thread_local! {
    static NOW_NS: Cell<u64> = const { Cell::new(1_000_000_000_000) };
}

#[no_mangle]
pub unsafe extern "C" fn clock_gettime(clk: libc::clockid_t, ts: *mut libc::timespec) -> libc::c_int {
    if clk == libc::CLOCK_MONOTONIC {
        let t = NOW_NS.with(|c| c.get());
        (*ts).tv_sec = (t / 1_000_000_000) as libc::time_t;
        (*ts).tv_nsec = (t % 1_000_000_000) as libc::c_long;
        0
    } else {
        libc::syscall(libc::SYS_clock_gettime, clk as libc::c_long, ts) as libc::c_int
    }
}

pub fn advance(d: Duration) {
    NOW_NS.with(|c| c.set(c.get() + d.as_nanos() as u64));
}

pub fn now_ns() -> u64 {
    NOW_NS.with(|c| c.get())
}

/// Real wall-clock seconds (CLOCK_REALTIME is not intercepted).
pub fn wall() -> f64 {
    std::time::SystemTime::now()
        .duration_since(std::time::UNIX_EPOCH)
        .map(|d| d.as_secs_f64())
        .unwrap_or(0.0)
}

/// Start-up self-test: the interposition must be effective, else nothing the harness says about
/// time can be trusted.
pub fn self_test() {
    let a = Instant::now();
    // burn some real time
    let w = wall();
    while wall() - w < 0.002 {}
    let b = Instant::now();
    if a != b {
        eprintln!("MACHINERY: clock seam ineffective (Instant moved without advance)");
        std::process::exit(2);
    }
    advance(Duration::from_millis(5));
    if Instant::now().duration_since(a) != Duration::from_millis(5) {
        eprintln!("MACHINERY: clock seam ineffective (advance not observed)");
        std::process::exit(2);
    }
}
